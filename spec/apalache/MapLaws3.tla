------------------------------ MODULE MapLaws3 ------------------------------
(***************************************************************************)
(* C08, unbounded: laws of the step-map position rule for maps with up to   *)
(* three ranges of ARBITRARY integer sizes, gaps and positions, decided     *)
(* symbolically by Apalache (SMT) on the initial states:                    *)
(*    apalache-mc check --init=Init --next=Next --length=0 --inv=<Law>      *)
(* TLC's MC_Map checks the same laws exhaustively for sizes 0..2/3 and      *)
(* checks that PMMapUnrolled!MapU is PMMap!MapPos there.                    *)
(***************************************************************************)
EXTENDS Integers, PMMapUnrolled

VARIABLES
  \* @type: Bool;
  b,
  \* @type: Int;
  s1,
  \* @type: Int;
  o1,
  \* @type: Int;
  n1,
  \* @type: Int;
  g2,
  \* @type: Int;
  o2,
  \* @type: Int;
  n2,
  \* @type: Int;
  g3,
  \* @type: Int;
  o3,
  \* @type: Int;
  n3,
  \* @type: Int;
  p,
  \* @type: Int;
  q,
  \* @type: Int;
  a

(* stored ranges are ordered and do not overlap in the coordinates of the non-inverted map *)
S2 == s1 + o1 + g2
S3 == S2 + o2 + g3

Init ==
  /\ b \in BOOLEAN
  /\ s1 \in Int /\ o1 \in Int /\ n1 \in Int /\ g2 \in Int /\ o2 \in Int /\ n2 \in Int
  /\ g3 \in Int /\ o3 \in Int /\ n3 \in Int /\ p \in Int /\ q \in Int
  /\ a \in {-1, 1}
  /\ s1 >= 0 /\ o1 >= 0 /\ n1 >= 0 /\ g2 >= 0 /\ o2 >= 0 /\ n2 >= 0 /\ g3 >= 0 /\ o3 >= 0 /\ n3 >= 0
  /\ p >= 0 /\ q >= 0
Next == UNCHANGED <<b, s1, o1, n1, g2, o2, n2, g3, o3, n3, p, q, a>>

M(bb, pos, assoc) == MapU(bb, s1, o1, n1, S2, o2, n2, S3, o3, n3, pos, assoc)
Touch(bb, pos) == TouchesU(bb, s1, o1, n1, S2, o2, n2, S3, o3, n3, pos)
Total(bb) == (NewU(bb, o1, n1) - OldU(bb, o1, n1)) + (NewU(bb, o2, n2) - OldU(bb, o2, n2)) + (NewU(bb, o3, n3) - OldU(bb, o3, n3))

(* ---- the laws ---- *)
Monotonic == p <= q => M(b, p, a) <= M(b, q, a)
SideOrder == M(b, p, -1) <= M(b, p, 1)
NonNegative == M(b, p, a) >= 0
(* the two sides differ only at or inside a range *)
SidesAgreeOutside == ~Touch(b, p) => M(b, p, -1) = M(b, p, 1)
(* the inverted map undoes the map on every position no range touches *)
InverseOutside == ~Touch(b, p) => M(~b, M(b, p, a), a) = p
(* distances between untouched positions change exactly by the size change of the ranges in between:
   in particular, beyond the last range every position is shifted by the total size change *)
BeyondShift == (p > S3 + o3 /\ ~b) => M(b, p, a) = p + Total(b)
=============================================================================
