-------------------------------- MODULE PMOps --------------------------------
(***************************************************************************)
(* High-level Transform operations: exact token-level forms where the       *)
(* properties say "exactly" (mark operations, node-level edits, split,      *)
(* join, wrap) and contracts where they only constrain the outcome          *)
(* (replace family / fitting, block retyping, isolating boundaries).        *)
(***************************************************************************)
EXTENDS PMStep

(* ---------------- C13: mark operations ---------------- *)
(* what add_mark marks: inline tokens that are atoms - text, inline leaves and inline nodes declared `atom` (such a
   node, e.g. a footnote with text content, is marked as a whole through its open token; the text inside it is
   inline and atomic too) - under a parent that allows the mark type *)
MarkableTok(d, i, mt) ==
  IsInlineTok(d[i]) /\ IsAtomTok(d[i]) /\ AllowsMarkType(ParentTypeAt(d, i), mt)
AddMarkOp(d, f, t, mk) ==
  Canonize([i \in 1..Len(d) |->
     IF f < i /\ i <= t /\ MarkableTok(d, i, mk.t) THEN [d[i] EXCEPT !.m = AddToSet(mk, @)] ELSE d[i]])
(* what: [kind |-> "mark" | "type" | "all", mark, type] *)
StripMarks(ms, what) ==
  CASE what.kind = "mark" -> RemoveFromSet(what.mark, ms)
    [] what.kind = "type" -> RemoveTypeFromSet(what.type, ms)
    [] OTHER -> <<>>
RemoveMarkOp(d, f, t, what) ==
  Canonize([i \in 1..Len(d) |->
     IF f < i /\ i <= t /\ IsInlineTok(d[i]) THEN [d[i] EXCEPT !.m = StripMarks(@, what)] ELSE d[i]])

(* ---------------- leaf / text bookkeeping (C11) ---------------- *)
NonTextLeaves(d) == SelectSeq(Unflag(d), LAMBDA x : x.k = "l")
Chars(d) == TextOf(d)
(* LeafSeq(out) = A \o M \o B with A, B the leaf sequences before / after the range *)
SplitABM(d, f, t, out) ==
  LET A == LeafSeq(SubSeq(d, 1, f))
      B == LeafSeq(SubSeq(d, t + 1, Len(d)))
      L == LeafSeq(out) IN
  [ok |-> Len(A) + Len(B) <= Len(L) /\ SubSeq(L, 1, Len(A)) = A /\ Suffix(L, Len(B)) = B,
   M |-> IF Len(A) + Len(B) <= Len(L) THEN SubSeq(L, Len(A) + 1, Len(L) - Len(B)) ELSE <<>>]
(* the elements of L left over after deleting a leftmost (dir = 1) or rightmost (dir = -1)
   embedding of S in L; [ok, rest] *)
RECURSIVE LeftoverL(_, _)
LeftoverL(L, S) ==
  IF S = <<>> THEN [ok |-> TRUE, rest |-> L]
  ELSE IF L = <<>> THEN [ok |-> FALSE, rest |-> <<>>]
  ELSE IF Head(L) = Head(S) THEN LeftoverL(Tail(L), Tail(S))
  ELSE LET r == LeftoverL(Tail(L), S) IN [ok |-> r.ok, rest |-> <<Head(L)>> \o r.rest]
LeftoverR(L, S) == LET r == LeftoverL(Rev(L), Rev(S)) IN [ok |-> r.ok, rest |-> Rev(r.rest)]
LeafKey(x) == <<x.t, x.a>>
(* Relaxed form of the same contract, used when content of the range that cannot be deleted
   (a required leaf) stays and content after the range is pulled in front of it: the leaves
   before and after the range are all present in order (A \o B embeds in L) and what is left
   over comes from the payload in order, from generatable fillers, or - non-text leaves only -
   from the range itself. *)
RelaxedOK(d, f, t, out, payload) ==
  LET A == LeafSeq(SubSeq(d, 1, f))
      B == LeafSeq(SubSeq(d, t + 1, Len(d)))
      L == LeafSeq(out)
      inside == SubSeq(d, f + 1, t)
      good(rest) == /\ IsSubseq(TextOf(rest), TextOf(payload))
                    /\ \A i \in 1..Len(rest) : rest[i].k = "l" =>
                          (Generatable(rest[i].t)
                           \/ (\E j \in 1..Len(payload) : (payload[j].k = "l" /\ LeafKey(payload[j]) = LeafKey(rest[i])))
                           \/ (\E j \in 1..Len(inside) : (inside[j].k = "l" /\ LeafKey(inside[j]) = LeafKey(rest[i]))))
      l == LeftoverL(L, A \o B)
      r == LeftoverR(L, A \o B) IN
  (l.ok /\ good(l.rest)) \/ (r.ok /\ good(r.rest))
MiddleOK(M, payload) ==
  \* characters are an in-order subsequence of the payload's text; other leaves come from the
  \* payload or are filler nodes the schema can generate
  /\ IsSubseq(TextOf(M), TextOf(payload))
  /\ \A i \in 1..Len(M) : M[i].k = "l" =>
        (Generatable(M[i].t) \/ \E j \in 1..Len(payload) : payload[j].k = "l" /\ LeafKey(payload[j]) = LeafKey(M[i]))

(* The exact form with padding at the far ends: the schema may require an empty filler leaf before everything the      *)
(* operation keeps or after it (figure: caption figureimage - the filler image follows the text that was after the      *)
(* range).  Up to j leading and k trailing leaves of the result that are generatable non-text leaves are set aside and  *)
(* the rest must split exactly as A \o M \o B.                                                                           *)
FillerLeaf(x) == x.k = "l" /\ Generatable(x.t)
RECURSIVE LeadFill(_)
LeadFill(L) == IF L # <<>> /\ FillerLeaf(Head(L)) THEN 1 + LeadFill(Tail(L)) ELSE 0
ExactPadded(d, f, t, out, payload, deletion) ==
  LET A == LeafSeq(SubSeq(d, 1, f))
      B == LeafSeq(SubSeq(d, t + 1, Len(d)))
      L == LeafSeq(out) IN
  \E j \in 0..LeadFill(L), k \in 0..LeadFill(Rev(L)) :
     /\ j + k + Len(A) + Len(B) <= Len(L)
     /\ LET L2 == SubSeq(L, j + 1, Len(L) - k)
            M == SubSeq(L2, Len(A) + 1, Len(L2) - Len(B)) IN
        /\ SubSeq(L2, 1, Len(A)) = A /\ Suffix(L2, Len(B)) = B
        /\ MiddleOK(M, payload)
        /\ (deletion => TextOf(M) = <<>>)

(* ---------------- isolating boundaries (C18) ---------------- *)
(* open-token indices of isolating ancestors containing both positions *)
IsoAncestors(d, f, t) ==
  LET af == StackAt(d, f)
      at == StackAt(d, t) IN
  {af[k] : k \in {j \in 1..Min2(Len(af), Len(at)) : af[j] = at[j] /\ Flag(d[af[j]].t, "isolating")}}
(* the isolating node opened at o survives unchanged outside its content *)
(* weaker: everything up to and including the node's open token is unchanged (the node was
   not removed, retyped or merged into a predecessor), but what follows is not the edited
   content + the old tail: payload was placed outside the node *)
IsoIntactButLeaky(d, out, o) ==
  LET c == MatchArr(d)[o]
      tail == Len(d) - c IN
  /\ Len(out) >= o + 1
  /\ Unflag(SubSeq(out, 1, o)) = Unflag(SubSeq(d, 1, o))
  /\ Balanced(out)
IsoPreserved(d, out, o) ==
  LET c == MatchArr(d)[o]
      tail == Len(d) - c IN
  /\ Len(out) >= o + 1 + tail
  /\ Unflag(SubSeq(out, 1, o)) = Unflag(SubSeq(d, 1, o))
  /\ Unflag(Suffix(out, tail)) = Unflag(Suffix(d, tail))
  /\ Balanced(out) /\ MatchArr(out)[o] = Len(out) - tail

(* Slice.max_open(fragment, openIsolating): open depths along the first / last children, stopping
   at leaves and - unless openIsolating - at isolating nodes (they stay closed) *)
RECURSIVE OpenDepthStart(_, _, _)
OpenDepthStart(f, i, openIso) ==
  IF i <= Len(f) /\ f[i].k = "o" /\ (openIso \/ ~Flag(f[i].t, "isolating")) THEN 1 + OpenDepthStart(f, i + 1, openIso) ELSE 0
RECURSIVE OpenDepthEnd(_, _, _, _)
OpenDepthEnd(f, M, i, openIso) ==
  IF i >= 1 /\ f[i].k = "c" /\ (openIso \/ ~Flag(f[M[i]].t, "isolating")) THEN 1 + OpenDepthEnd(f, M, i - 1, openIso) ELSE 0
MaxOpen(f, openIso) == [toks |-> f, os |-> OpenDepthStart(f, 1, openIso), oe |-> OpenDepthEnd(f, MatchArr(f), Len(f), openIso)]

(* ---------------- structure edits: closed forms (C12) ---------------- *)
(* split(pos, n[, types]): close n levels and re-open them (types after may override) *)
SplitRef(d, p, n, after) ==
  LET anc == StackAt(d, p)
      dep == Len(anc)
      opens == [j \in 1..n |->
                  LET lvl == dep - n + j IN
                  IF j <= Len(after) /\ after[j].t # ""
                  THEN OpenTok(after[j].t, after[j].a, d[anc[lvl]].m) ELSE d[anc[lvl]]] IN
  Canonize(SubSeq(d, 1, p) \o Rep(CloseTok, n) \o opens \o SubSeq(d, p + 1, Len(d)))
(* join(pos, n): delete n closes before and n opens after pos *)
JoinRef(d, p, n) == Canonize(SubSeq(d, 1, p - n) \o SubSeq(d, p + n + 1, Len(d)))
(* wrap(range [s, e], wrappers): open the wrappers at s, close them at e *)
WrapRef(d, s, e, ws) ==
  Canonize(SubSeq(d, 1, s) \o [j \in 1..Len(ws) |-> OpenTok(ws[j].t, ws[j].a, <<>>)]
           \o SubSeq(d, s + 1, e) \o Rep(CloseTok, Len(ws)) \o SubSeq(d, e + 1, Len(d)))
=============================================================================
