-------------------------------- MODULE PMMap --------------------------------
(***************************************************************************)
(* Step maps and mappings (C08).  A step map is [ranges, inv] with ranges  *)
(* a sequence of triples <<start, oldSize, newSize>> in pre-image          *)
(* coordinates; inv swaps the roles of old and new.                        *)
(* A map result is [pos, del, rec] with del the deletion-info bits and rec *)
(* the recover value (-1 for none).                                        *)
(***************************************************************************)
EXTENDS Integers, Sequences, FiniteSets, TLC

DEL_BEFORE == 1
DEL_AFTER  == 2
DEL_ACROSS == 4
DEL_SIDE   == 8
(* A recover value names a range of a map and an offset into it.  The code packs the two into one integer
   (index + offset * 2^16, the index being the 16-bit part); the specification keeps them as a pair, so that
   offsets of any size can be evaluated (TLC's integers are 32-bit) - the harness packs / unpacks when it
   compares with the library. *)
NoRecover  == <<-1, -1>>
MakeRecover(index, offset) == <<index, offset>>
RecoverIndex(v) == v[1]
RecoverOffset(v) == v[2]

OldSize(m, r) == IF m.inv THEN r[3] ELSE r[2]
NewSize(m, r) == IF m.inv THEN r[2] ELSE r[3]

(* the documented rule, scanning ranges left to right carrying the shift *)
RECURSIVE MapFrom(_, _, _, _, _)
MapFrom(m, i, diff, pos, assoc) ==
  IF i > Len(m.ranges) THEN [pos |-> pos + diff, del |-> 0, rec |-> NoRecover]
  ELSE LET r == m.ranges[i]
           start == r[1] - (IF m.inv THEN diff ELSE 0)
           old == OldSize(m, r)
           new == NewSize(m, r)
           end == start + old
       IN IF start > pos THEN [pos |-> pos + diff, del |-> 0, rec |-> NoRecover]
          ELSE IF pos <= end
          THEN LET side == IF old = 0 THEN assoc
                           ELSE IF pos = start THEN -1
                           ELSE IF pos = end THEN 1 ELSE assoc
                   keep == IF assoc < 0 THEN start ELSE end
                   di == (IF pos = start THEN DEL_AFTER
                          ELSE IF pos = end THEN DEL_BEFORE ELSE DEL_ACROSS)
                         + (IF pos # keep THEN DEL_SIDE ELSE 0)
               IN [pos |-> start + diff + (IF side < 0 THEN 0 ELSE new),
                   del |-> di,
                   rec |-> IF pos = keep THEN NoRecover ELSE MakeRecover(i - 1, pos - start)]
          ELSE MapFrom(m, i + 1, diff + new - old, pos, assoc)
MapRes(m, pos, assoc) == MapFrom(m, 1, 0, pos, assoc)
MapPos(m, pos, assoc) == MapRes(m, pos, assoc).pos

Deleted(r) == (r.del \div DEL_SIDE) % 2 = 1
DelBefore(r) == r.del % 2 = 1 \/ (r.del \div DEL_ACROSS) % 2 = 1
DelAfter(r) == (r.del \div DEL_AFTER) % 2 = 1 \/ (r.del \div DEL_ACROSS) % 2 = 1
DelAcross(r) == (r.del \div DEL_ACROSS) % 2 = 1

(* shift accumulated before range i *)
RECURSIVE DiffBefore(_, _)
DiffBefore(m, i) == IF i <= 1 THEN 0
                    ELSE DiffBefore(m, i - 1) + NewSize(m, m.ranges[i - 1]) - OldSize(m, m.ranges[i - 1])
(* start of range i in old and new coordinates of this (possibly inverted) map *)
OldStart(m, i) == m.ranges[i][1] - (IF m.inv THEN DiffBefore(m, i) ELSE 0)
NewStart(m, i) == m.ranges[i][1] + (IF m.inv THEN 0 ELSE DiffBefore(m, i))
(* for_each: <<oldStart, oldEnd, newStart, newEnd>> per range *)
ForEach(m) == [i \in 1..Len(m.ranges) |->
                 <<OldStart(m, i), OldStart(m, i) + OldSize(m, m.ranges[i]),
                   NewStart(m, i), NewStart(m, i) + NewSize(m, m.ranges[i])>>]
(* touches(pos, recover): pos lies within the range the recover value names *)
Touches(m, pos, rec) ==
  LET i == RecoverIndex(rec) + 1 IN
  /\ i <= Len(m.ranges)
  /\ OldStart(m, i) <= pos /\ pos <= OldStart(m, i) + OldSize(m, m.ranges[i])
  \* the scan stops at the first range starting after pos; ranges are ordered
  /\ \A j \in 1..(i - 1) : OldStart(m, j) <= pos
(* recover(value): position in this map's post-image for a recover value made by its mirror *)
Recover(m, v) ==
  LET i == RecoverIndex(v) + 1 IN
  NewStart(m, i) + RecoverOffset(v)
InvertMap(m) == [m EXCEPT !.inv = ~m.inv]

(* well-formed range lists: ordered, non-overlapping in pre-image coordinates *)
RangesOK(rs) ==
  /\ \A i \in 1..Len(rs) : rs[i][1] >= 0 /\ rs[i][2] >= 0 /\ rs[i][3] >= 0
  /\ \A i \in 1..(Len(rs) - 1) : rs[i][1] + rs[i][2] <= rs[i + 1][1]
SizeChange(m) == LET n == Len(m.ranges) IN
  IF n = 0 THEN 0 ELSE DiffBefore(m, n) + NewSize(m, m.ranges[n]) - OldSize(m, m.ranges[n])

----------------------------------------------------------------------------
(* Mappings: [maps : Seq(StepMap), mirror : Seq(<<i, j>>) (0-based pairs), from, to] *)
SetMinM(S) == CHOOSE x \in S : \A y \in S : x <= y
GetMirror(mp, n) ==
  LET hits == {k \in 1..Len(mp.mirror) : mp.mirror[k][1] = n \/ mp.mirror[k][2] = n} IN
  IF hits = {} THEN -1
  ELSE LET k == SetMinM(hits) IN IF mp.mirror[k][1] = n THEN mp.mirror[k][2] ELSE mp.mirror[k][1]

BitOr(a, b) ==
  LET bit(x, k) == (x \div k) % 2 IN
  (IF bit(a, 1) + bit(b, 1) > 0 THEN 1 ELSE 0) + (IF bit(a, 2) + bit(b, 2) > 0 THEN 2 ELSE 0)
  + (IF bit(a, 4) + bit(b, 4) > 0 THEN 4 ELSE 0) + (IF bit(a, 8) + bit(b, 8) > 0 THEN 8 ELSE 0)
RECURSIVE MappingFrom(_, _, _, _, _)
(* i is 0-based index of the next map to apply *)
MappingFrom(mp, i, pos, assoc, del) ==
  IF i >= mp.to THEN [pos |-> pos, del |-> del, rec |-> NoRecover]
  ELSE LET r == MapRes(mp.maps[i + 1], pos, assoc)
           corr == GetMirror(mp, i)
       IN IF r.rec # NoRecover /\ corr # -1 /\ corr > i /\ corr < mp.to
          THEN MappingFrom(mp, corr + 1, Recover(mp.maps[corr + 1], r.rec), assoc, del)
          ELSE MappingFrom(mp, i + 1, r.pos, assoc, BitOr(del, r.del))
MappingRes(mp, pos, assoc) == MappingFrom(mp, mp.from, pos, assoc, 0)
MappingPos(mp, pos, assoc) == MappingRes(mp, pos, assoc).pos

(* plain left-to-right composition, ignoring mirrors *)
RECURSIVE Compose(_, _, _, _, _)
Compose(maps, i, to, pos, assoc) ==
  IF i >= to THEN pos ELSE Compose(maps, i + 1, to, MapPos(maps[i + 1], pos, assoc), assoc)

EmptyMapping == [maps |-> <<>>, mirror |-> <<>>, from |-> 0, to |-> 0]
MSlice(mp, f, t) == [mp EXCEPT !.from = f, !.to = t]
MAppendMap(mp, m, mirrors) ==
  [maps |-> Append(mp.maps, m),
   mirror |-> IF mirrors = -1 THEN mp.mirror ELSE Append(mp.mirror, <<Len(mp.maps), mirrors>>),
   from |-> mp.from, to |-> Len(mp.maps) + 1]
RECURSIVE MAppendMappingFrom(_, _, _, _)
MAppendMappingFrom(mp, other, i, startSize) ==
  IF i >= Len(other.maps) THEN mp
  ELSE LET mirr == GetMirror(other, i) IN
       MAppendMappingFrom(MAppendMap(mp, other.maps[i + 1],
                                      IF mirr # -1 /\ mirr < i THEN startSize + mirr ELSE -1),
                          other, i + 1, startSize)
MAppendMapping(mp, other) == MAppendMappingFrom(mp, other, 0, Len(mp.maps))
RECURSIVE MAppendInvFrom(_, _, _, _)
MAppendInvFrom(mp, other, i, totalSize) ==
  IF i < 0 THEN mp
  ELSE LET mirr == GetMirror(other, i) IN
       MAppendInvFrom(MAppendMap(mp, InvertMap(other.maps[i + 1]),
                                  IF mirr # -1 /\ mirr > i THEN totalSize - mirr - 1 ELSE -1),
                      other, i - 1, totalSize)
MAppendMappingInverted(mp, other) ==
  MAppendInvFrom(mp, other, Len(other.maps) - 1, Len(mp.maps) + Len(other.maps))
MInvert(mp) == MAppendMappingInverted(EmptyMapping, mp)
=============================================================================
