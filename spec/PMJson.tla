-------------------------------- MODULE PMJson --------------------------------
(***************************************************************************)
(* The JSON wire format as structure (C05).  Values (attribute values,      *)
(* text) are opaque; what is specified is which keys appear when.           *)
(* A JSON document is flattened by the harness into the token sequence of   *)
(* the nodes it describes, each token carrying the set of keys its object   *)
(* has ("keys", a sorted sequence).                                         *)
(***************************************************************************)
EXTENDS PMStep

(* lexical order on the few key names used *)
KeyOrder == <<"attr", "attrs", "content", "from", "gapFrom", "gapTo", "insert", "mark", "marks", "openEnd", "openStart",
              "pos", "slice", "stepType", "structure", "text", "to", "type", "value">>
KeyIdx(k) == CHOOSE i \in 1..Len(KeyOrder) : KeyOrder[i] = k
LeqStr(a, b) == KeyIdx(a) <= KeyIdx(b)

RECURSIVE SortedSeq(_)
SortedSeq(S) == IF S = {} THEN <<>> ELSE LET x == CHOOSE y \in S : \A z \in S : LeqStr(y, z) IN <<x>> \o SortedSeq(S \ {x})
NodeKeys(d, M, i) ==
  LET tok == d[i] IN
  SortedSeq({"type"}
            \cup (IF tok.k = "x" THEN {"text"} ELSE {})
            \cup (IF tok.k \in {"o", "l"} /\ tok.a # <<>> THEN {"attrs"} ELSE {})
            \cup (IF tok.k = "o" /\ M[i] > i + 1 THEN {"content"} ELSE {})
            \cup (IF tok.m # <<>> THEN {"marks"} ELSE {}))
(* flattened JSON of a fragment: one entry per node (text nodes = canonical runs) *)
JsonFlat(d) == LET M == MatchArr(d) IN
  [i \in 1..Len(d) |->
     IF d[i].k = "c" THEN [tok |-> Unflag(<<d[i]>>)[1], keys |-> <<>>]
     ELSE IF d[i].k = "x" /\ ~CanonB(d, i) THEN [tok |-> Unflag(<<d[i]>>)[1], keys |-> <<>>]   \* inside a text node
     ELSE [tok |-> Unflag(<<d[i]>>)[1], keys |-> NodeKeys(d, M, i)]]
Unflat(f) == [i \in 1..Len(f) |-> f[i].tok]

SliceJsonShape(s) ==
  IF Len(s.toks) = 0 THEN [null |-> TRUE, keys |-> <<>>, os |-> 0, oe |-> 0]
  ELSE [null |-> FALSE,
        keys |-> SortedSeq({"content"} \cup (IF s.os > 0 THEN {"openStart"} ELSE {}) \cup (IF s.oe > 0 THEN {"openEnd"} ELSE {})),
        os |-> s.os, oe |-> s.oe]

StepTypeName(st) == st.type     \* the published names coincide with the spec's type tags
StepKeys(st) ==
  CASE st.type = "replace" ->
         SortedSeq({"stepType", "from", "to"} \cup (IF SliceSize(st.slice) # 0 THEN {"slice"} ELSE {})
                   \cup (IF st.structure THEN {"structure"} ELSE {}))
    [] st.type = "replaceAround" ->
         SortedSeq({"stepType", "from", "to", "gapFrom", "gapTo", "insert"}
                   \cup (IF SliceSize(st.slice) # 0 THEN {"slice"} ELSE {}) \cup (IF st.structure THEN {"structure"} ELSE {}))
    [] st.type \in {"addMark", "removeMark"} -> SortedSeq({"stepType", "mark", "from", "to"})
    [] st.type \in {"addNodeMark", "removeNodeMark"} -> SortedSeq({"stepType", "pos", "mark"})
    [] st.type = "attr" -> SortedSeq({"stepType", "pos", "attr", "value"})
    [] st.type = "docAttr" -> SortedSeq({"stepType", "attr", "value"})
(* what a decoded step must equal: the step itself, except that a zero-size slice travels as "no slice" *)
WireNormal(st) ==
  IF st.type \in {"replace", "replaceAround"} /\ SliceSize(st.slice) = 0 THEN [st EXCEPT !.slice = EmptySlice] ELSE st
=============================================================================
