------------------------------- MODULE PMMarks -------------------------------
(***************************************************************************)
(* Mark sets.  A mark is [t : mark type name, a : opaque attrs string]; a  *)
(* mark set is a sequence.  The exclusion and permission relations are     *)
(* derived here from the text the schema author wrote (excludes / marks).  *)
(***************************************************************************)
EXTENDS PMContent

MarkGroupMembers(g) == {n \in MarkNames : g \in Range(MT(n).groups)}
(* gather_marks: a name is a mark type, or "_" (all), or a group *)
GatherMarks(names) ==
  UNION {IF nm \in MarkNames THEN {nm}
         ELSE IF nm = "_" THEN MarkNames ELSE MarkGroupMembers(nm) : nm \in Range(names)}
GatherOK(names) ==
  \A nm \in Range(names) : nm \in MarkNames \/ nm = "_" \/ MarkGroupMembers(nm) # {}

(* mark type a excludes mark type b *)
ExclTab == [a \in MarkNames |->
              IF MT(a).ek = "absent" THEN {a} ELSE GatherMarks(MT(a).enames)]
Excl(a, b) == b \in ExclTab[a]

(* mark types a node type allows on its children *)
AllowTab == [n \in NodeNames |->
               IF NT(n).mk = "absent"
               THEN (IF InlineContent(n) THEN MarkNames ELSE {})
               ELSE GatherMarks(NT(n).mnames)]
AllowsMarkType(n, mt) == mt \in AllowTab[n]
AllowsMarks(n, ms) == \A i \in 1..Len(ms) : AllowsMarkType(n, ms[i].t)
AllowedMarks(n, ms) == SelectSeq(ms, LAMBDA x : AllowsMarkType(n, x.t))

IsInSet(m, set) == \E i \in 1..Len(set) : set[i] = m
TypeInSet(t, set) == \E i \in 1..Len(set) : set[i].t = t
RemoveFromSet(m, set) == SelectSeq(set, LAMBDA x : x # m)
RemoveTypeFromSet(t, set) == SelectSeq(set, LAMBDA x : x.t # t)
SameSet(a, b) == a = b

(* Mark.add_to_set.  Unchanged if an equal mark is present, or a present mark
   that the new one does not itself exclude excludes the new one; otherwise the
   marks the new one excludes are removed, the others kept, and the new mark
   is inserted before the first kept mark of higher rank. *)
Blocked(m, set) == \E i \in 1..Len(set) : ~Excl(m.t, set[i].t) /\ Excl(set[i].t, m.t)
AddToSet(m, set) ==
  IF IsInSet(m, set) \/ Blocked(m, set) THEN set
  ELSE LET kept == SelectSeq(set, LAMBDA x : ~Excl(m.t, x.t))
           hi == {i \in 1..Len(kept) : Rank(kept[i].t) > Rank(m.t)}
           k == IF hi = {} THEN Len(kept) ELSE SetMin(hi) - 1
       IN SubSeq(kept, 1, k) \o <<m>> \o SubSeq(kept, k + 1, Len(kept))

RECURSIVE FoldAdd(_, _)
FoldAdd(ms, acc) == IF ms = <<>> THEN acc ELSE FoldAdd(Tail(ms), AddToSet(Head(ms), acc))
(* what Node.check demands: rebuilding the set mark by mark reproduces it *)
CanonicalMarks(ms) == FoldAdd(ms, <<>>) = ms
(* the stated form: strictly ordered by rank except equal-type marks, no two
   equal marks, no mark excluded by another present mark *)
Sorted(ms) == \A i \in 1..(Len(ms) - 1) : Rank(ms[i].t) <= Rank(ms[i + 1].t)
NoDup(ms) == \A i, j \in 1..Len(ms) : i # j => ms[i] # ms[j]
MarkNamesOK(ms) == \A i \in 1..Len(ms) : ms[i].t \in MarkNames

(* Mark.set_from on a list: stable sort by rank *)
RECURSIVE InsertSorted(_, _)
InsertSorted(m, s) ==
  IF s = <<>> THEN <<m>>
  ELSE IF Rank(Head(s).t) > Rank(m.t) THEN <<m>> \o s ELSE <<Head(s)>> \o InsertSorted(m, Tail(s))
RECURSIVE SetFrom(_)
SetFrom(ms) == IF ms = <<>> THEN <<>> ELSE InsertSorted(Last(ms), SetFrom(Front(ms)))
=============================================================================
