------------------------------ MODULE Trace_Json ------------------------------
(***************************************************************************)
(* C05: trace validation of to_json / real JSON text / from_json round      *)
(* trips of documents, slices, marks and steps.                             *)
(***************************************************************************)
EXTENDS PMJson

Events == Input.events
Docs == Input.docs
Slices == Input.slices
DocOKTab == [k \in 1..Len(Docs) |-> Valid(Docs[k]) /\ Canon(Docs[k])]

VJsonDoc(e) == LET d == Docs[e.di] IN
  IF ~(WF(d) /\ Canon(d)) THEN "skip:pre"
  ELSE IF e.res.kind # "ok" THEN "bad:JsonRaised"
  ELSE IF e.flat # JsonFlat(d) THEN "bad:WireFormat"
  ELSE IF e.topkeys # SortedSeq({"type"} \cup (IF e.ra # <<>> THEN {"attrs"} ELSE {}) \cup (IF Len(d) > 0 THEN {"content"} ELSE {})) THEN "bad:WireFormatTop"
  ELSE IF e.back # d \/ e.backra # e.ra THEN "bad:RoundTrip"
  ELSE IF ~e.again THEN "bad:NotIdempotent"
  ELSE IF ~e.eq THEN "bad:NotEqual"
  ELSE IF e.aliased THEN "bad:JsonAliasesLiveObject"
  ELSE "ok"
VJsonSlice(e) == LET s == Slices[e.si] IN
  IF ~(SliceShapeOK(s) /\ Canon(s.toks)) THEN "skip:pre"
  ELSE IF e.res.kind # "ok" THEN "bad:JsonRaised"
  ELSE IF e.shape # SliceJsonShape(s) THEN "bad:WireFormat"
  ELSE IF ~e.shape.null /\ e.flat # JsonFlat(s.toks) THEN "bad:WireFormat"
  ELSE IF e.back # s THEN "bad:RoundTrip"
  ELSE IF ~e.again THEN "bad:NotIdempotent"
  ELSE IF e.aliased THEN "bad:JsonAliasesLiveObject"
  ELSE "ok"
VJsonMark(e) ==
  IF e.res.kind # "ok" THEN "bad:JsonRaised"
  ELSE IF e.keys # <<"attrs", "type">> THEN "bad:WireFormat"
  ELSE IF e.back # e.mark THEN "bad:RoundTrip"
  ELSE IF ~e.again THEN "bad:NotIdempotent"
  ELSE IF e.aliased THEN "bad:JsonAliasesLiveObject"
  ELSE "ok"
VJsonStep(e) ==
  IF e.res.kind # "ok" THEN "bad:JsonRaised"
  ELSE IF e.stepType # StepTypeName(e.step) THEN "bad:StepTypeName"
  ELSE IF e.keys # StepKeys(e.step) THEN "bad:WireFormat"
  ELSE IF e.back # WireNormal(e.step) THEN "bad:RoundTrip"
  ELSE IF ~e.again THEN "bad:NotIdempotent"
  ELSE IF \E j \in 1..Len(e.cases) : e.cases[j].r1 # e.cases[j].r2 \/ e.cases[j].out1 # e.cases[j].out2 THEN "bad:DecodedStepDiffers"
  ELSE IF e.map1 # e.map2 THEN "bad:DecodedMapDiffers"
  ELSE IF e.aliased THEN "bad:JsonAliasesLiveObject"
  ELSE "ok"

Verdict(e) ==
  CASE e.ev = "JsonDoc" -> VJsonDoc(e)
    [] e.ev = "JsonSlice" -> VJsonSlice(e)
    [] e.ev = "JsonMark" -> VJsonMark(e)
    [] e.ev = "JsonStep" -> VJsonStep(e)
    [] OTHER -> "bad:UnknownEvent"

VARIABLE i
Init == i = 0
Next == /\ i < Len(Events)
        /\ i' = i + 1
        /\ PrintT(<<"V", Events[i + 1].id, Verdict(Events[i + 1])>>)
Spec == Init /\ [][Next]_i
=============================================================================
