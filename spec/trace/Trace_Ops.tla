------------------------------ MODULE Trace_Ops ------------------------------
(***************************************************************************)
(* Trace validation of high-level Transform operations and structure        *)
(* helpers against the contracts of C11, C12, C13 and C18.  Input.prop      *)
(* selects the property whose clauses are evaluated.                        *)
(*   "OpC"    : one Transform operation on a document (before/after tokens) *)
(*   "Helper" : one structure-helper query and, if it approved, the edit    *)
(***************************************************************************)
EXTENDS PMOps

Events == Input.events
Docs == Input.docs
Slices == Input.slices
Prop == Input.prop
DocOKTab == [k \in 1..Len(Docs) |-> Valid(Docs[k]) /\ Canon(Docs[k])]
SliceOKTab == [k \in 1..Len(Slices) |-> ValidSlice(Slices[k]) /\ Canon(Slices[k].toks)]
PosOK(d, p) == 0 <= p /\ p <= Len(d)
ReplaceFamily == {"replace", "replace_with", "insert", "delete", "replace_range", "replace_range_with", "delete_range"}
Deletions == {"delete", "delete_range"}

----------------------------------------------------------------------------
(* C11 *)
VC11(e) == LET d == Docs[e.di] IN
  IF e.ev # "OpC" \/ e.op \notin ReplaceFamily THEN "skip:otherop"
  ELSE IF ~(DocOKTab[e.di] /\ PosOK(d, e.from) /\ PosOK(d, e.to) /\ e.from <= e.to /\ SliceOKTab[e.si]) THEN "skip:pre"
  ELSE IF e.res.kind = "raise" THEN (IF e.total THEN "bad:Raised" ELSE "skip:raised-on-generated-schema")
  ELSE LET out == e.out
           payload == Inner(Slices[e.si])
           abm == SplitABM(d, e.from, e.to, out) IN
       IF ~Valid(out) THEN "bad:ResultInvalid"
       ELSE IF ~Canon(out) THEN "bad:TextNotMerged"
       \* no fit found: the operation records no step and leaves the document as it was
       ELSE IF e.nsteps = 0 /\ out = d THEN "ok"
       ELSE IF abm.ok /\ MiddleOK(abm.M, payload) /\ (e.op \in Deletions => TextOf(abm.M) = <<>>) THEN "ok"
       ELSE IF RelaxedOK(d, e.from, e.to, out, payload) THEN "ok"
       ELSE IF ExactPadded(d, e.from, e.to, out, payload, e.op \in Deletions) THEN "ok"
       ELSE IF ~abm.ok THEN "bad:SurroundingContentChanged"
       ELSE IF e.op \in Deletions /\ TextOf(abm.M) # <<>> THEN "bad:DeletionAddedText"
       ELSE "bad:ContentInventedOrReordered"

----------------------------------------------------------------------------
(* C18 *)
VC18(e) == LET d == Docs[e.di] IN
  IF e.ev = "OpC"
  THEN IF e.op \notin ReplaceFamily THEN "skip:otherop"
       ELSE IF ~(DocOKTab[e.di] /\ PosOK(d, e.from) /\ PosOK(d, e.to) /\ e.from <= e.to /\ SliceOKTab[e.si]) THEN "skip:pre"
       ELSE IF IsoAncestors(d, e.from, e.to) = {} THEN "skip:not-inside-isolating"
       ELSE IF e.res.kind # "ok" THEN "skip:raised"
       ELSE IF ~Balanced(e.out) THEN "bad:ResultNotWellFormed"
       ELSE IF \A o \in IsoAncestors(d, e.from, e.to) : IsoPreserved(d, e.out, o) THEN "ok"
       \* replace_range_with at a cursor position first looks for a nearby position where the node
       \* can be inserted (insert_point); that search does not stop at isolating boundaries
       ELSE IF e.op = "replace_range_with" /\ e.from = e.to
               /\ \E p \in 0..Len(d) : Unflag(e.out) = Unflag(SubSeq(d, 1, p) \o Inner(Slices[e.si]) \o SubSeq(d, p + 1, Len(d)))
            THEN "bad:InsertedOutsideIsolating"
       ELSE IF \A o \in IsoAncestors(d, e.from, e.to) : IsoPreserved(d, e.out, o) \/ IsoIntactButLeaky(d, e.out, o)
            THEN "bad:ContentPlacedOutsideIsolating"
       ELSE IF TRUE THEN "bad:IsolatingNodeRemovedOrChanged"
       ELSE "ok"
  ELSE \* helpers: lift targets and splits never cross an isolating boundary
       IF e.helper = "max_open"
       THEN (LET f == Docs[e.di]  m == MaxOpen(f, e.openIso) IN
             IF ~(WF(f) /\ Canon(f)) THEN "skip:pre"
             ELSE IF e.res.kind # "ok" THEN "bad:HelperRaised"
             ELSE IF <<e.os, e.oe>> # <<m.os, m.oe>> THEN
                  (IF ~e.openIso THEN "bad:MaxOpenOpensIsolating" ELSE "bad:MaxOpen")
             ELSE "ok")
       ELSE IF ~DocOKTab[e.di] THEN "skip:pre"
       ELSE IF e.res.kind # "ok" THEN "skip:raised"
       ELSE IF e.helper = "lift_target"
       THEN LET iso == IsoAncestors(d, e.rstart, e.rend) IN   \* the block range that would be lifted
            IF iso = {} THEN "skip:not-inside-isolating"
            ELSE IF e.res.none THEN "ok"
            ELSE IF \E o \in iso : e.res.val < Depth(d, o) THEN "bad:LiftCrossesIsolating" ELSE "ok"
       ELSE IF e.helper = "can_split"
       THEN LET anc == StackAt(d, e.pos) IN
            IF ~e.res.val THEN (IF \E j \in 1..Len(anc) : Flag(d[anc[j]].t, "isolating") THEN "ok" ELSE "skip:not-inside-isolating")
            ELSE IF \E j \in (Len(anc) - e.depth + 1)..Len(anc) : j >= 1 /\ Flag(d[anc[j]].t, "isolating") THEN "bad:SplitCrossesIsolating"
            ELSE IF \E j \in 1..Len(anc) : Flag(d[anc[j]].t, "isolating") THEN "ok" ELSE "skip:not-inside-isolating"
       ELSE "skip:otherhelper"

----------------------------------------------------------------------------
(* C13 *)
NW(seq) == LET l == SelectSeq(seq, LAMBDA x : (x.k = "l") \/ (x.k = "x" /\ x.c \notin {10, 13, 32})) IN
           [j \in 1..Len(l) |-> <<l[j].k, l[j].t, l[j].c>>]
TextNW(seq) == LET l == SelectSeq(seq, LAMBDA x : x.k = "x" /\ x.c \notin {10, 13, 32}) IN [j \in 1..Len(l) |-> l[j].c]
TextblockSpans(d, f, t) == LET M == MatchArr(d) IN
  SelectSeq([i \in 1..Len(d) |-> [s |-> i, e |-> IF d[i].k = "o" THEN M[i] ELSE i]],
            LAMBDA sp : d[sp.s].k = "o" /\ IsTextblock(d[sp.s].t) /\ sp.s - 1 < t /\ sp.e > f)
RECURSIVE RetypeWalk(_, _, _, _, _, _, _, _)
RetypeWalk(d, out, Mo, spans, j, pd, po, tgt) ==
  IF j > Len(spans)
  THEN Unflag(SubSeq(d, pd, Len(d))) = Unflag(SubSeq(out, po, Len(out)))
  ELSE LET sp == spans[j]
           gap == sp.s - pd
           q == po + gap IN
       /\ q <= Len(out)
       /\ Unflag(SubSeq(d, pd, sp.s - 1)) = Unflag(SubSeq(out, po, q - 1))
       /\ out[q].k = "o"
       /\ LET old == SubSeq(d, sp.s, sp.e)
              new == SubSeq(out, q, Mo[q]) IN
          /\ \/ Unflag(new) = Unflag(old)
             \/ /\ new[1].t = tgt.t /\ new[1].a = tgt.a /\ new[1].m = old[1].m
                /\ IsSubseq(NW(new), NW(old))
                \* text survives a retyping to a type that holds text; line breaks become spaces
                \* unless the new type is a code block
                /\ ("text" \in AllTypes(ContentOf(tgt.t))) => TextNW(new) = TextNW(old)
                /\ (~Flag(tgt.t, "code")) => \A x \in 1..Len(new) : ~(new[x].k = "x" /\ new[x].c \in {10, 13})
          /\ RetypeWalk(d, out, Mo, spans, j + 1, sp.e + 1, Mo[q] + 1, tgt)
BlockRetypeOK(d, out, f, t, tgt) ==
  Balanced(out) /\ RetypeWalk(d, out, MatchArr(out), TextblockSpans(d, f, t), 1, 1, 1, tgt)

OnlyTokenChanged(d, out, i) ==
  Len(out) = Len(d) /\ \A j \in 1..Len(d) : j # i => Unflag(<<out[j]>>) = Unflag(<<d[j]>>)

VC13(e) == LET d == Docs[e.di] IN
  IF e.ev # "OpC" THEN "skip:otherevent"
  ELSE IF ~DocOKTab[e.di] THEN "skip:pre"
  ELSE IF e.op = "add_mark" THEN
    (IF ~(PosOK(d, e.from) /\ PosOK(d, e.to) /\ e.from <= e.to /\ e.mark.t \in MarkNames) THEN "skip:pre"
     ELSE IF e.res.kind # "ok" THEN "bad:MarkOpRaised"
     ELSE IF e.out # AddMarkOp(d, e.from, e.to, e.mark) THEN "bad:AddMarkEffect"
     ELSE "ok")
  ELSE IF e.op \in {"remove_mark", "remove_mark_type", "remove_mark_all"} THEN
    (IF ~(PosOK(d, e.from) /\ PosOK(d, e.to) /\ e.from <= e.to) THEN "skip:pre"
     ELSE IF e.res.kind # "ok" THEN "bad:MarkOpRaised"
     ELSE IF e.out # RemoveMarkOp(d, e.from, e.to, e.what) THEN "bad:RemoveMarkEffect"
     ELSE "ok")
  ELSE IF e.op \in {"add_node_mark", "remove_node_mark", "set_node_attribute"} THEN
    (LET i == IF PosOK(d, e.pos) THEN NodeTokAt(d, e.pos) ELSE 0 IN
     IF i = 0 THEN "skip:no-node"
     ELSE IF e.res.kind # "ok" THEN
          (IF e.res.valueerror THEN
              (IF Apply(e.step, d, e.ra).ok THEN "bad:NodeEditRefused" ELSE "ok")
           ELSE "bad:InternalError")
     ELSE IF ~OnlyTokenChanged(d, e.out, i) THEN "bad:OtherTokensChanged"
     ELSE IF ~Valid(e.out) THEN "bad:ResultInvalid"
     ELSE IF e.out # Apply(e.step, d, e.ra).doc THEN "bad:NodeEditEffect"
     ELSE "ok")
  ELSE IF e.op = "set_node_markup" THEN
    (LET i == IF PosOK(d, e.pos) THEN NodeTokAt(d, e.pos) ELSE 0 IN
     IF i = 0 THEN "skip:no-node"
     ELSE IF d[i].k = "l" THEN
        (IF e.res.kind # "ok" THEN "skip:raised"
         ELSE IF ~Valid(e.out) THEN "bad:ResultInvalid"
         ELSE IF LeafSeq(SubSeq(e.out, 1, i - 1)) # LeafSeq(SubSeq(d, 1, i - 1)) THEN "bad:OtherTokensChanged"
         ELSE "ok")
     ELSE LET kids == KidsOf(d, MatchArr(d), i)
              fits == ValidKids(e.tgt.t, kids) IN
        IF e.res.kind # "ok" THEN
           (IF ~e.res.valueerror THEN "bad:InternalError"
            ELSE IF fits /\ Valid([d EXCEPT ![i] = OpenTok(e.tgt.t, e.tgt.a, e.tgt.m)]) THEN "bad:MarkupChangeRefused" ELSE "ok")
        ELSE IF ~fits THEN "bad:MarkupChangeAcceptedInvalidContent"
        ELSE IF e.out # [d EXCEPT ![i] = OpenTok(e.tgt.t, e.tgt.a, e.tgt.m)] THEN "bad:MarkupEffect"
        ELSE IF ~Valid(e.out) THEN "bad:ResultInvalid"
        ELSE "ok")
  ELSE IF e.op = "set_block_type" THEN
    (IF ~(PosOK(d, e.from) /\ PosOK(d, e.to) /\ e.from <= e.to) THEN "skip:pre"
     ELSE IF e.res.kind # "ok" THEN (IF e.res.valueerror THEN "skip:raised" ELSE "bad:InternalError")
     ELSE IF ~Valid(e.out) THEN "bad:ResultInvalid"
     ELSE IF ~BlockRetypeOK(d, e.out, e.from, e.to, e.tgt) THEN "bad:BlockRetypeEffect"
     ELSE "ok")
  ELSE "skip:otherop"

----------------------------------------------------------------------------
(* C12 *)
StructureEdits == {"can_split", "can_join", "join_point", "lift_target", "find_wrapping"}
VC12(e) == LET d == Docs[e.di] IN
  IF e.ev # "Helper" THEN "skip:otherevent"
  ELSE IF ~DocOKTab[e.di] THEN "skip:pre"
  ELSE IF e.res.kind # "ok" THEN "bad:HelperRaised"
  ELSE IF ~e.inrange THEN "bad:ResultOutOfRange"
  ELSE IF ~e.approved THEN "ok"
  ELSE IF ~e.total THEN
       \* generated schemas: only "a performed edit that returns is valid and keeps the leaf sequence"
       (IF e.edit.kind # "ok" THEN "skip:edit-raised-on-generated-schema"
        ELSE IF ~Valid(e.edit.out) THEN "bad:EditInvalid"
        ELSE IF e.helper \in StructureEdits /\ LeafSeq(e.edit.out) # LeafSeq(d) THEN "bad:LeafSequenceChanged"
        ELSE "ok")
  ELSE IF e.edit.kind # "ok" THEN "bad:ApprovedEditFails"
  ELSE IF ~Valid(e.edit.out) THEN "bad:EditInvalid"
  ELSE IF ~Canon(e.edit.out) THEN "bad:TextNotMerged"
  ELSE IF e.helper \in StructureEdits /\ LeafSeq(e.edit.out) # LeafSeq(d) THEN "bad:LeafSequenceChanged"
  ELSE IF e.helper = "can_split" /\ e.edit.out # SplitRef(d, e.pos, e.depth, e.after) THEN "drift:SplitRef"
  ELSE IF e.helper \in {"can_join", "join_point"} /\ e.edit.out # JoinRef(d, e.joinpos, 1) THEN "drift:JoinRef"
  ELSE IF e.helper = "find_wrapping" /\ e.edit.out # WrapRef(d, e.rstart, e.rend, e.wrappers) THEN "drift:WrapRef"
  ELSE "ok"

Verdict(e) ==
  CASE Prop = "C11" -> VC11(e)
    [] Prop = "C12" -> VC12(e)
    [] Prop = "C13" -> VC13(e)
    [] Prop = "C18" -> VC18(e)
    [] OTHER -> "bad:UnknownProperty"

VARIABLE i
Init == i = 0
Next == /\ i < Len(Events)
        /\ i' = i + 1
        /\ PrintT(<<"V", Events[i + 1].id, Verdict(Events[i + 1])>>)
Spec == Init /\ [][Next]_i
=============================================================================
