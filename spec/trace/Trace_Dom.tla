------------------------------ MODULE Trace_Dom ------------------------------
(***************************************************************************)
(* C19: trace validation of HTML export and import.                         *)
(*  Serialize : document -> HTML tokens (tokenized from the produced string) *)
(*  RoundTrip : document -> HTML string -> DOMParser.parse -> document       *)
(*  Parse     : arbitrary HTML fragment -> document                          *)
(*  Context   : a rule restricted by a context expression applied or not     *)
(***************************************************************************)
EXTENDS PMDom

Events == Input.events
Docs == Input.docs
DocOKTab == [k \in 1..Len(Docs) |-> Valid(Docs[k]) /\ Canon(Docs[k])]

VSerialize(e) == LET d == Docs[e.di] IN
  IF ~(DocOKTab[e.di] /\ Renderable(d)) THEN "skip:pre"
  ELSE IF e.res.kind # "ok" THEN "bad:SerializeRaised"
  ELSE IF MergeText(e.html) # MergeText(Render(d)) THEN "bad:SerializedHtml"
  ELSE "ok"
VRoundTrip(e) == LET d == Docs[e.di] IN
  IF ~(DocOKTab[e.di] /\ Renderable(d)) THEN "skip:pre"
  ELSE IF ~WsNormal(d) THEN "skip:not-whitespace-normal"
  ELSE IF ~(RoundTripAttrs(d) /\ MarksRoundTrip(d)) THEN "skip:attrs-not-carried"
  ELSE IF e.res.kind = "timeout" THEN "bad:ParseDoesNotTerminate"
  ELSE IF e.res.kind # "ok" THEN "bad:RoundTripRaised"
  ELSE IF e.back # d THEN "bad:RoundTrip"
  ELSE "ok"
VParse(e) ==
  IF e.res.kind = "timeout" THEN "bad:ParseDoesNotTerminate"
  ELSE IF e.res.kind # "ok" THEN "bad:ParseRaised"
  ELSE IF ~Valid(e.out) THEN "bad:ParsedInvalid"
  ELSE IF ~Canon(e.out) THEN "bad:TextNotMerged"
  ELSE "ok"
VContext(e) ==
  IF e.res.kind = "timeout" THEN "bad:ParseDoesNotTerminate"
  ELSE IF e.res.kind # "ok" THEN "bad:ParseRaised"
  ELSE IF ~e.observable THEN "skip:marker-not-found"
  ELSE IF e.hit # ContextMatches(e.alts, e.stack) THEN (IF e.hit THEN "bad:ContextRuleAppliedWrongly" ELSE "bad:ContextRuleNotApplied")
  ELSE "ok"

(* a style attribute: the text inside the styled element carries exactly the marks the declared style rules assign and the
   parent textblock allows; the text after the element carries none *)
VStyle(e) ==
  IF e.res.kind = "timeout" THEN "bad:ParseDoesNotTerminate"
  ELSE IF e.res.kind # "ok" THEN "bad:ParseRaised"
  ELSE IF ~Valid(e.out) THEN "bad:ParsedInvalid"
  ELSE IF ~e.found THEN "bad:StyledTextLost"
  \* e.tagmarks: the marks the element's own tag rule assigns (<b> gives strong)
  ELSE LET want == {m \in StyleMarks(Input.stylerules, e.decls) \cup {e.tagmarks[i] : i \in 1..Len(e.tagmarks)} : AllowsMarkType(e.parent, m)} IN
       IF {e.inside[i] : i \in 1..Len(e.inside)} # want THEN "bad:StyleRule"
       ELSE IF Len(e.after) # 0 THEN "bad:StyleLeaked"
       ELSE "ok"

Verdict(e) ==
  CASE e.ev = "Serialize" -> VSerialize(e)
    [] e.ev = "Style" -> VStyle(e)
    [] e.ev = "RoundTrip" -> VRoundTrip(e)
    [] e.ev = "Parse" -> VParse(e)
    [] e.ev = "Context" -> VContext(e)
    [] OTHER -> "bad:UnknownEvent"

VARIABLE i
Init == i = 0
Next == /\ i < Len(Events)
        /\ i' = i + 1
        /\ PrintT(<<"V", Events[i + 1].id, Verdict(Events[i + 1])>>)
Spec == Init /\ [][Next]_i
=============================================================================
