---------------------------- MODULE Trace_Content ----------------------------
(***************************************************************************)
(* C15: trace validation of ContentMatch.fill_before / find_wrapping /      *)
(* default_type and NodeType.create_and_fill.  Input.exprs is a table of    *)
(* content expressions; an event names an expression k and the child        *)
(* sequence (type names) that leads to the match state the call was made    *)
(* on.                                                                      *)
(***************************************************************************)
EXTENDS PMSchema

Events == Input.events
Exprs == Input.exprs
StateOf(e) == Run({Exprs[e.k]}, e.prefix)

VFill(e) == LET S == StateOf(e)
                after == SubSeq(e.after, e.start + 1, Len(e.after)) IN
  IF S = {} THEN "skip:deadstate"
  ELSE IF e.res.kind = "raise" THEN "bad:FillRaised"
  ELSE IF e.res.kind = "none"
  THEN IF FillExists(S, after, e.toEnd) THEN "bad:FillIncomplete" ELSE "ok"
  ELSE IF \E i \in 1..Len(e.res.types) : ~Generatable(e.res.types[i]) THEN "bad:FillNotGeneratable"
  ELSE IF ~IsFill(S, e.res.types, after, e.toEnd) THEN "bad:FillUnsound"
  ELSE IF ~e.res.nodesvalid THEN "bad:FillNodesInvalid"
  ELSE "ok"

VWrap(e) == LET S == StateOf(e)
                n == ShortestWrapLen(S, e.target) IN
  IF S = {} THEN "skip:deadstate"
  ELSE IF e.res.kind = "raise" THEN "bad:WrapRaised"
  ELSE IF e.res.kind = "none" THEN (IF n # -1 THEN "bad:WrapIncomplete" ELSE "ok")
  ELSE IF ~IsWrapChain(S, e.res.types, e.target) THEN "bad:WrapUnsound"
  ELSE IF Len(e.res.types) # n THEN "bad:WrapNotShortest"
  ELSE "ok"

VDefaultType(e) == LET S == StateOf(e)
                       gen == {a \in FirstOfSet(S) : Generatable(a)} IN
  IF S = {} THEN "skip:deadstate"
  ELSE IF e.res.kind = "none" THEN (IF gen # {} THEN "bad:DefaultTypeMissed" ELSE "ok")
  ELSE IF e.res.type \notin gen THEN "bad:DefaultTypeWrong" ELSE "ok"

(* create_and_fill(type, content): a node (tokens of the whole node) or nothing *)
VCreateAndFill(e) ==
  IF e.res.kind = "none" THEN "ok"
  ELSE IF e.res.kind = "raise" THEN "bad:CreateAndFillRaised"
  ELSE LET toks == e.res.toks
           inner == SubSeq(toks, 2, Len(toks) - 1)
           kids == Kids(inner, MatchArr(inner), 1, Len(inner)) IN
       IF ~(WF(toks) /\ (Len(toks) = 1 \/ ValidUnder(e.type, inner))) THEN "bad:CreateAndFillInvalid"
       ELSE IF Len(toks) > 1 /\ ~IsSubseq(e.content, TypesOf(kids)) THEN "bad:CreateAndFillLostContent"
       ELSE "ok"

Verdict(e) ==
  CASE e.ev = "Fill" -> VFill(e)
    [] e.ev = "Wrap" -> VWrap(e)
    [] e.ev = "DefaultType" -> VDefaultType(e)
    [] e.ev = "CreateAndFill" -> VCreateAndFill(e)
    [] OTHER -> "bad:UnknownEvent"

VARIABLE i
Init == i = 0
Next == /\ i < Len(Events)
        /\ i' = i + 1
        /\ PrintT(<<"V", Events[i + 1].id, Verdict(Events[i + 1])>>)
Spec == Init /\ [][Next]_i
=============================================================================
