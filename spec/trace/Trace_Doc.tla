------------------------------ MODULE Trace_Doc ------------------------------
(***************************************************************************)
(* Trace validation of independent (stateless) library calls.  Input.events *)
(* is a sequence of recorded calls: arguments, projected pre-state and the  *)
(* observed outcome.  TLC consumes one event per step and evaluates the     *)
(* contract of that call with the operators of the specification.  The      *)
(* verdict operator is total: "ok", "skip:<why>" (outside the property's    *)
(* quantifier), "drift:<clause>" (reference semantics differ but the        *)
(* property does not care) or "bad:<clause>" (the property is violated).    *)
(* One line <<"V", id, verdict>> is printed per event.                      *)
(***************************************************************************)
EXTENDS PMStep, PMDiff

Events == Input.events
(* documents and slices are stored once and referenced by index (e.di, e.si) *)
Docs == Input.docs
Slices == Input.slices
DocOKTab == [k \in 1..Len(Docs) |-> Valid(Docs[k]) /\ Canon(Docs[k])]
SliceOKTab == [k \in 1..Len(Slices) |-> ValidSlice(Slices[k]) /\ Canon(Slices[k].toks)]

PosOK(d, p) == 0 <= p /\ p <= Len(d)

----------------------------------------------------------------------------
(* C02 *)
VSlice(e) == LET d == Docs[e.di] IN
  IF ~(DocOKTab[e.di] /\ PosOK(d, e.from) /\ PosOK(d, e.to) /\ e.from <= e.to) THEN "skip:pre"
  ELSE IF e.res.kind # "ok" THEN "bad:SliceRaised"
  ELSE LET c == Cut(d, e.from, e.to) IN
       IF e.out.os # c.os \/ e.out.oe # c.oe THEN "bad:OpenDepths"
       ELSE IF e.out.toks # c.toks THEN "bad:CutTokens"
       ELSE IF e.size # SliceSize(c) \/ e.size # e.to - e.from THEN "bad:SliceSize"
       ELSE "ok"
VCut(e) == LET d == Docs[e.di] IN
  IF ~(DocOKTab[e.di] /\ PosOK(d, e.from) /\ PosOK(d, e.to)) THEN "skip:pre"
  ELSE IF e.res.kind # "ok" THEN "bad:CutRaised"
  ELSE IF e.out # FragmentCut(d, e.from, e.to) THEN "bad:FragmentCut"
  ELSE "ok"
VReplace(e) == LET d == Docs[e.di]  sl == Slices[e.si] IN
  IF ~(DocOKTab[e.di] /\ PosOK(d, e.from) /\ PosOK(d, e.to) /\ e.from <= e.to /\ SliceOKTab[e.si])
  THEN "skip:pre"
  ELSE LET sp == Splice(d, e.from, e.to, sl) IN
    IF e.res.kind = "ok"
    THEN IF ~SameToks(e.out, sp) THEN "bad:Splice"
         ELSE IF e.out # sp THEN "bad:TextNotMerged"
         ELSE IF Len(e.out) # Len(d) + SliceSize(sl) - (e.to - e.from) THEN "bad:SizeLaw"
         ELSE IF ~Valid(e.out) THEN "bad:ReturnedInvalid"
         \* a close token closes a node of a particular type: a splice in which an open node is closed by the close token
         \* of a node with incompatible content is not a well-formed tree, however valid the merged children are
         ELSE IF ~JoinsOK(d, e.from, e.to, sl) THEN "bad:JoinRuleNotApplied"
         ELSE "ok"
    ELSE IF e.res.kind = "raise"
    THEN IF e.res.cls # "ReplaceError" THEN "bad:RaiseClass"
         ELSE IF sl = Cut(d, e.from, e.to) THEN "bad:ReinsertRefused"
         ELSE IF Valid(sp) /\ DepthsFit(d, e.from, e.to, sl) /\ JoinsOK(d, e.from, e.to, sl) THEN "drift:RefusedValidSplice"
         ELSE "ok"
    ELSE "bad:Outcome"

----------------------------------------------------------------------------
(* C01 / C03: one step applied to one document *)
MarkOK(mk) == mk.t \in MarkNames
StepPre(d, st) ==
  CASE st.type = "replace" ->
         PosOK(d, st.from) /\ PosOK(d, st.to) /\ st.from <= st.to /\ ValidSlice(st.slice) /\ Canon(st.slice.toks)
    [] st.type = "replaceAround" ->
         PosOK(d, st.from) /\ PosOK(d, st.to) /\ PosOK(d, st.gapFrom) /\ PosOK(d, st.gapTo)
         /\ st.from <= st.gapFrom /\ st.gapFrom <= st.gapTo /\ st.gapTo <= st.to
         /\ st.insert >= 0 /\ st.insert <= SliceSize(st.slice)
         /\ ValidSliceAround(st.slice, st.insert) /\ Canon(st.slice.toks)
    [] st.type \in {"addMark", "removeMark"} ->
         PosOK(d, st.from) /\ PosOK(d, st.to) /\ st.from <= st.to /\ MarkOK(st.mark)
    [] st.type \in {"addNodeMark", "removeNodeMark"} -> PosOK(d, st.pos) /\ MarkOK(st.mark)
    [] st.type = "attr" -> PosOK(d, st.pos)
    [] st.type = "docAttr" -> TRUE
    [] OTHER -> FALSE
VApply(e) == LET d == Docs[e.di] IN
  IF ~DocOKTab[e.di] THEN "skip:doc"
  ELSE IF ~StepPre(d, e.step) THEN "skip:step"
  ELSE IF e.res.kind = "ok"
  THEN IF ~WF(e.out) THEN "bad:NotWellFormed"
       ELSE IF ~Valid(e.out) THEN "bad:ReturnedInvalid"
       ELSE IF ~Canon(e.out) THEN "bad:TextNotMerged"
       ELSE LET r == Apply(e.step, d, e.ra) IN
            IF ~r.ok THEN "drift:RefAppliesNot"
            ELSE IF r.doc # e.out \/ r.ra # e.outra THEN "drift:RefDiffers" ELSE "ok"
  ELSE IF e.res.kind = "fail" THEN
       (IF Apply(e.step, d, e.ra).ok THEN "drift:RefApplies" ELSE "ok")
  ELSE IF e.res.kind = "raise" THEN (IF e.res.valueerror THEN "ok" ELSE "bad:InternalError")
  ELSE "bad:Outcome"

(* C03: the reported map is faithful to the change *)
VStepMap(e) == LET d == Docs[e.di] IN
  IF ~DocOKTab[e.di] \/ ~StepPre(d, e.step) THEN "skip:pre"
  ELSE IF e.res.kind # "ok" THEN "skip:notapplied"
  ELSE LET exact == e.step.type \in {"replace", "replaceAround"} IN
       IF ~RangesOK(e.map) THEN "bad:MapRanges"
       ELSE IF ~Faithful(d, e.out, e.map, exact) THEN "bad:Faithful"
       \* the map *function*: every old token outside the ranges, taken as the interval [i-1, i], is sent by the
       \* library's StepMap.map to the interval where that token is found in the new document
       \* (not judged for maps with two ranges touching each other - an empty-gap replace-around: upstream's
       \* first-matching-range rule stops at the first of them, the interpretation already fixed for C08)
       ELSE IF e.mapped # <<>> /\ (\A x \in 1..(Len(e.map) - 1) : e.map[x][1] + e.map[x][2] < e.map[x + 1][1])
               /\ ~(\A i \in 1..Len(d) : RangeOf(e.map, 1, i) = 0 =>
                                      /\ e.mapped[i][1] = i - 1 + ShiftAt(e.map, 1, i)
                                      /\ e.mapped[i + 1][2] = i + ShiftAt(e.map, 1, i)) THEN "bad:MappedPosition"
       ELSE IF e.map # GetMap(e.step).ranges THEN "drift:GetMap"
       ELSE "ok"

(* C04, single step: the library's inverse undoes the step exactly and its map is the inverse map *)
VInvert(e) == LET d == Docs[e.di] IN
  IF ~DocOKTab[e.di] \/ ~StepPre(d, e.step) THEN "skip:pre"
  ELSE IF e.res.kind # "ok" THEN "skip:notapplied"
  \* the single-step law is stated for replace, attribute, document-attribute and node-mark steps;
  \* arbitrary replace-around and mark steps are covered through histories built by the API
  ELSE IF e.step.type \in {"replaceAround", "addMark", "removeMark"} THEN "skip:outside-quantifier"
  ELSE IF e.step.type = "attr" /\ (NodeTokAt(d, e.step.pos) = 0 \/ ~DeclaredAttr(d[NodeTokAt(d, e.step.pos)].t, e.step.attr)) THEN "skip:undeclared-attr"
  ELSE IF e.step.type = "docAttr" /\ ~DeclaredAttr(TopType, e.step.attr) THEN "skip:undeclared-attr"
  ELSE IF e.back.kind # "ok" THEN "bad:InverseDoesNotApply"
  ELSE IF e.backdoc # d \/ e.backra # e.ra THEN "bad:InverseNotExact"
  ELSE IF ~(\A p \in 0..Len(e.out) : \A a \in {-1, 1} :
             MapPos([ranges |-> e.invmap, inv |-> FALSE], p, a) = MapPos([ranges |-> e.map, inv |-> TRUE], p, a))
       THEN "bad:InverseMap"
  ELSE IF e.inv # InvertStep(e.step, d, e.ra) THEN "drift:InvertStep"
  ELSE "ok"

(* C20: diffing two fragments *)
VDiff(e) == LET a == Docs[e.di]  b == Docs[e.di2] IN
  IF ~(WF(a) /\ WF(b) /\ Canon(a) /\ Canon(b)) THEN "skip:pre"
  ELSE IF e.start.kind = "timeout" THEN "bad:DiffStartDoesNotTerminate"
  ELSE IF e.end.kind = "timeout" THEN "bad:DiffEndDoesNotTerminate"
  ELSE IF e.start.kind = "raise" THEN "bad:DiffStartRaised"
  ELSE IF e.end.kind = "raise" THEN "bad:DiffEndRaised"
  ELSE IF e.start.pos # DiffStart(a, b) THEN "bad:DiffStart"
  ELSE IF <<e.end.a, e.end.b>> # DiffEnd(a, b) THEN "bad:DiffEnd"
  ELSE "ok"

(* C16: a merged step is equivalent to the two steps it replaces, on every document of the case list *)
VMerge(e) ==
  IF e.merged.type = "none"
  THEN (IF Merge(e.s1, e.s2).type # "none" THEN "drift:RefMerges" ELSE "ok")
  ELSE LET bad == {j \in 1..Len(e.cases) :
                     DocOKTab[e.cases[j].di] /\ e.cases[j].pair.kind = "ok"
                     /\ ~(e.cases[j].m.kind = "ok" /\ e.cases[j].mout = e.cases[j].pout)} IN
       IF bad # {} THEN "bad:MergedDiffers"
       ELSE IF ~(\E j \in 1..Len(e.cases) : DocOKTab[e.cases[j].di] /\ e.cases[j].pair.kind = "ok") THEN "skip:pair-applies-nowhere"
       ELSE IF Merge(e.s1, e.s2) # e.merged THEN "drift:RefMergeDiffers"
       ELSE "ok"

(* C17: separated steps commute after rebasing *)
SeparatedSteps(a, b, d) == LET ta == TouchedIn(a, d)  tb == TouchedIn(b, d) IN
  ta[1] <= ta[2] /\ tb[1] <= tb[2] /\ (ta[2] + 1 <= tb[1] \/ tb[2] + 1 <= ta[1])
VCommute(e) == LET d == Docs[e.di] IN
  IF ~DocOKTab[e.di] \/ ~StepPre(d, e.a) \/ ~StepPre(d, e.b) THEN "skip:pre"
  ELSE IF e.ra.kind # "ok" \/ e.rb.kind # "ok" THEN "skip:notapplied"
  ELSE IF ~SeparatedSteps(e.a, e.b, d) THEN "skip:notseparated"
  ELSE IF e.am.type = "none" \/ e.bm.type = "none" THEN "bad:DroppedByRebase"
  ELSE IF e.ab.kind # "ok" \/ e.ba.kind # "ok" THEN "bad:RebasedDoesNotApply"
  ELSE IF e.about # e.baout THEN "bad:Diverged"
  ELSE IF e.am # MapOver(e.a, GetMap(e.b)) \/ e.bm # MapOver(e.b, GetMap(e.a)) THEN "drift:MapStep"
  ELSE "ok"

(* C08 on mappings of real step histories (with mirror registrations made by rebasing) *)
VMapping(e) ==
  LET mp == [maps |-> [j \in 1..Len(e.maps) |-> [ranges |-> e.maps[j].ranges, inv |-> e.maps[j].inv]],
             mirror |-> e.mirror, from |-> e.from, to |-> e.to] IN
  IF \E j \in 1..Len(e.maps) : ~RangesOK(e.maps[j].ranges) THEN "skip:ranges"
  ELSE IF \E j \in 1..Len(e.q) : e.q[j].res.kind # "ok" THEN "bad:MappingRaised"
  \* mode: which of the two public calls was observed - "both", "result" (map_result) or "simple" (map)
  ELSE IF \E j \in 1..Len(e.q) : e.q[j].mode # "simple" /\ e.q[j].pos # MappingRes(mp, e.q[j].p, e.q[j].assoc).pos THEN "bad:MappingPos"
  ELSE IF \E j \in 1..Len(e.q) : e.q[j].mode # "simple" /\ e.q[j].del # MappingRes(mp, e.q[j].p, e.q[j].assoc).del THEN "bad:MappingDelInfo"
  ELSE IF \E j \in 1..Len(e.q) : e.q[j].mode # "result" /\ e.q[j].simple # MappingRes(mp, e.q[j].p, e.q[j].assoc).pos THEN "bad:MappingMapVsMapResult"
  ELSE IF e.roundtrip /\ (\A j \in 1..Len(e.maps) : \A x \in 1..(Len(e.maps[j].ranges) - 1) :
                            e.maps[j].ranges[x][1] + e.maps[j].ranges[x][2] < e.maps[j].ranges[x + 1][1])
          /\ (\E j \in 1..Len(e.q) : e.q[j].pos # e.q[j].p) THEN "bad:MirrorRoundTrip"
  ELSE "ok"

----------------------------------------------------------------------------
(* C07: validity predicates.  A node is given as (type name, content tokens). *)
NodeKids(e) == LET d == Docs[e.di] IN Kids(d, MatchArr(d), 1, Len(d))
ContentWF(d) == WF(d) /\ Canon(d)
(* children are structurally fine (needed before content_match_at may be asked) *)
VCheck(e) == LET d == Docs[e.di] IN
  IF ~ContentWF(d) THEN "skip:pre"
  ELSE IF e.res.kind = "raise" /\ ~e.res.valueerror THEN "bad:CheckInternalError"
  ELSE IF (e.res.kind = "ok") # ValidUnder(e.type, d) THEN
       (IF e.res.kind = "ok" THEN "bad:CheckAcceptedInvalid" ELSE "bad:CheckRejectedValid")
  ELSE "ok"
VValidContent(e) == LET d == Docs[e.di] IN
  IF ~ContentWF(d) THEN "skip:pre"
  ELSE IF e.res.kind # "ok" THEN "bad:ValidContentRaised"
  ELSE IF e.out # ValidKids(e.type, NodeKids(e)) THEN "bad:ValidContent" ELSE "ok"
VCreateChecked(e) == LET d == Docs[e.di] IN
  IF ~ContentWF(d) THEN "skip:pre"
  ELSE IF e.res.kind = "raise" /\ ~e.res.valueerror THEN "bad:CreateCheckedInternalError"
  ELSE IF (e.res.kind = "ok") # ValidKids(e.type, NodeKids(e)) THEN "bad:CreateChecked" ELSE "ok"
VCanReplace(e) == LET d == Docs[e.di]
                      kids == NodeKids(e)
                      rd == Docs[e.di2]
                      repl == Kids(rd, MatchArr(rd), 1, Len(rd)) IN
  IF ~(ContentWF(d) /\ ContentWF(rd) /\ ValidTypeSeq(e.type, TypesOf(kids))) THEN "skip:pre"
  ELSE IF ~(0 <= e.from /\ e.from <= e.to /\ e.to <= Len(kids) /\ 0 <= e.start /\ e.start <= e.end /\ e.end <= Len(repl))
  THEN "skip:range"
  ELSE IF e.res.kind # "ok" THEN "bad:CanReplaceRaised"
  ELSE IF e.out # CanReplace(e.type, kids, e.from, e.to, repl, e.start, e.end) THEN "bad:CanReplace" ELSE "ok"
VCanReplaceWith(e) == LET d == Docs[e.di]
                          kids == NodeKids(e) IN
  IF ~(ContentWF(d) /\ ValidTypeSeq(e.type, TypesOf(kids))) THEN "skip:pre"
  ELSE IF ~(0 <= e.from /\ e.from <= e.to /\ e.to <= Len(kids)) THEN "skip:range"
  ELSE IF e.res.kind # "ok" THEN "bad:CanReplaceWithRaised"
  ELSE IF e.out # CanReplaceWith(e.type, kids, e.from, e.to, e.ntype, e.marks) THEN "bad:CanReplaceWith" ELSE "ok"
VCanAppend(e) == LET d == Docs[e.di]
                     kids == NodeKids(e)
                     od == Docs[e.di2]
                     okids == Kids(od, MatchArr(od), 1, Len(od)) IN
  IF ~(ContentWF(d) /\ ContentWF(od) /\ ValidTypeSeq(e.type, TypesOf(kids))) THEN "skip:pre"
  ELSE IF e.res.kind # "ok" THEN "bad:CanAppendRaised"
  ELSE IF Len(okids) = 0 THEN
       (IF e.out # CompatibleContent(e.type, e.otype) THEN "drift:CanAppendEmpty" ELSE "ok")
  ELSE IF e.out # CanAppend(e.type, kids, okids) THEN "bad:CanAppend" ELSE "ok"

----------------------------------------------------------------------------
Verdict(e) ==
  CASE e.ev = "Slice"   -> VSlice(e)
    [] e.ev = "Cut"     -> VCut(e)
    [] e.ev = "Replace" -> VReplace(e)
    [] e.ev = "Apply"   -> VApply(e)
    [] e.ev = "StepMap" -> VStepMap(e)
    [] e.ev = "Invert" -> VInvert(e)
    [] e.ev = "Diff" -> VDiff(e)
    [] e.ev = "Merge" -> VMerge(e)
    [] e.ev = "Commute" -> VCommute(e)
    [] e.ev = "Mapping" -> VMapping(e)
    [] e.ev = "Check" -> VCheck(e)
    [] e.ev = "ValidContent" -> VValidContent(e)
    [] e.ev = "CreateChecked" -> VCreateChecked(e)
    [] e.ev = "CanReplace" -> VCanReplace(e)
    [] e.ev = "CanReplaceWith" -> VCanReplaceWith(e)
    [] e.ev = "CanAppend" -> VCanAppend(e)
    [] OTHER -> "bad:UnknownEvent"

VARIABLE i
Init == i = 0
Next == /\ i < Len(Events)
        /\ i' = i + 1
        /\ PrintT(<<"V", Events[i + 1].id, Verdict(Events[i + 1])>>)
Spec == Init /\ [][Next]_i
=============================================================================
