----------------------------- MODULE Trace_Resolve -----------------------------
(***************************************************************************)
(* C09: every accessor of a resolved position, the lookups and the          *)
(* traversals, compared with the operators of PMResolve at the recorded     *)
(* position(s).                                                             *)
(***************************************************************************)
EXTENDS PMResolve

Events == Input.events
Docs == Input.docs
DocOKTab == [k \in 1..Len(Docs) |-> Valid(Docs[k]) /\ Canon(Docs[k])]
PosOK(d, p) == 0 <= p /\ p <= Len(d)

(* pos_at_index(i, depth) for every i: the positions of the child boundaries *)
PosAtIndexAll(d, c, k) == LET kids == RKids(d, c, k) IN
  [j \in 1..(Len(kids) + 1) |-> IF j = 1 THEN RStart(d, c, k) ELSE kids[j - 1].e]

VResolve(e) == LET d == Docs[e.di]  p == e.pos IN
  IF ~(DocOKTab[e.di] /\ PosOK(d, p)) THEN "skip:pre"
  ELSE IF e.res.kind # "ok" THEN "bad:ResolveRaised"
  ELSE LET c == Ctx(d, p) IN
    IF e.depth # c.depth THEN "bad:Depth"
    ELSE IF Len(e.path) # c.depth + 1 THEN "bad:PathLength"
    ELSE IF \E k \in 0..c.depth : e.path[k + 1].type # RType(d, c, k) THEN "bad:NodeAtDepth"
    ELSE IF \E k \in 0..c.depth : e.path[k + 1].start # RStart(d, c, k) THEN "bad:Start"
    ELSE IF \E k \in 0..c.depth : e.path[k + 1].end # REnd(d, c, k) THEN "bad:End"
    ELSE IF \E k \in 1..c.depth : e.path[k + 1].before # RBefore(d, c, k) \/ e.path[k + 1].after # RAfter(d, c, k) THEN "bad:BeforeAfter"
    ELSE IF \E k \in 0..c.depth : e.path[k + 1].index # RIndex(d, c, k, p) THEN "bad:Index"
    ELSE IF \E k \in 0..c.depth : e.path[k + 1].indexAfter # RIndexAfter(d, c, k, p) THEN "bad:IndexAfter"
    ELSE IF \E k \in 0..c.depth : e.path[k + 1].posAtIndex # PosAtIndexAll(d, c, k) THEN "bad:PosAtIndex"
    ELSE IF e.parentOffset # RParentOffset(d, c, p) THEN "bad:ParentOffset"
    ELSE IF e.textOffset # RTextOffset(d, c, p) THEN "bad:TextOffset"
    ELSE IF e.nodeAfter # RNodeAfter(d, c, p) THEN "bad:NodeAfter"
    ELSE IF e.nodeBefore # RNodeBefore(d, c, p) THEN "bad:NodeBefore"
    ELSE IF e.marks.kind # "ok" THEN "bad:MarksRaised"
    ELSE IF e.marks.out # MarksAt(d, c, p) THEN "bad:MarksAt"
    ELSE "ok"
VPair(e) == LET d == Docs[e.di]  p == e.p  q == e.q IN
  IF ~(DocOKTab[e.di] /\ PosOK(d, p) /\ PosOK(d, q)) THEN "skip:pre"
  ELSE IF e.res.kind # "ok" THEN "bad:PairRaised"
  ELSE LET c == Ctx(d, p) IN
    IF e.shared # RSharedDepth(d, c, q) THEN "bad:SharedDepth"
    ELSE IF e.blockRange # RBlockRange(d, Min2(p, q), Max2(p, q)) THEN "bad:BlockRange"
    ELSE IF e.marksAcross # MarksAcross(d, p, q) THEN "bad:MarksAcross"
    ELSE IF \E j \in 1..Len(e.hasMark) :
              e.hasMark[j].out # RangeHasMark(d, Min2(p, q), Max2(p, q), e.hasMark[j].mark, e.hasMark[j].byType) THEN "bad:RangeHasMark"
    ELSE "ok"

VWalk(e) == LET d == Docs[e.di] IN
  IF ~(DocOKTab[e.di] /\ PosOK(d, e.from) /\ PosOK(d, e.to) /\ e.from <= e.to) THEN "skip:pre"
  ELSE IF e.res.kind # "ok" THEN "bad:WalkRaised"
  ELSE IF e.visits # NodesBetween(d, e.from, e.to, e.prune) THEN "bad:NodesBetween"
  ELSE IF e.text.kind # "ok" THEN "bad:TextBetweenRaised"
  ELSE IF e.text.out # TextBetween(d, e.from, e.to, e.text.sep, e.text.leaf) THEN "bad:TextBetween"
  ELSE "ok"

VNodeAt(e) == LET d == Docs[e.di]  p == e.pos IN
  IF ~(DocOKTab[e.di] /\ PosOK(d, p)) THEN "skip:pre"
  ELSE IF e.res.kind # "ok" THEN "bad:LookupRaised"
  ELSE IF e.nodeAt # NodeAt(d, p) THEN "bad:NodeAt"
  ELSE IF e.findIndex # <<FindIndex(d, p, -1), FindIndex(d, p, 1)>> THEN "bad:FindIndex"
  ELSE IF e.childAfter # ChildAfter(d, p) THEN "bad:ChildAfter"
  ELSE IF e.childBefore # ChildBefore(d, p) THEN "bad:ChildBefore"
  ELSE IF e.size # Len(d) THEN "bad:NodeSize"
  ELSE IF e.textContent # TextOf(d) THEN "bad:TextContent"
  ELSE "ok"

Verdict(e) ==
  CASE e.ev = "Resolve" -> VResolve(e)
    [] e.ev = "Pair" -> VPair(e)
    [] e.ev = "Walk" -> VWalk(e)
    [] e.ev = "NodeAt" -> VNodeAt(e)
    [] OTHER -> "bad:UnknownEvent"

VARIABLE i
Init == i = 0
Next == /\ i < Len(Events)
        /\ i' = i + 1
        /\ PrintT(<<"V", Events[i + 1].id, Verdict(Events[i + 1])>>)
Spec == Init /\ [][Next]_i
=============================================================================
