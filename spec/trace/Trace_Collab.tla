---------------------------- MODULE Trace_Collab ----------------------------
(***************************************************************************)
(* Trace validation of collaborative-editing runs of the library (C04: the  *)
(* protocol stands on exact undo and exact replay of recorded steps over    *)
(* whole histories; the mappings with mirrors of C08 and the rebasing rules *)
(* of C17 decide what a rebased step becomes).  The harness runs            *)
(* prosemirror-collab's protocol over the library (authority applying the   *)
(* steps it accepts; clients rebasing with Transform, Mapping.slice,        *)
(* set_mirror, Step.map, Step.invert) and logs one event per protocol       *)
(* action with its arguments and the resulting state of the actor.  The     *)
(* trace specification carries PMCollab's state S from event to event; each *)
(* event must be the corresponding PMCollab action.                         *)
(*                                                                          *)
(* Contract clauses (bad:) are judged on what the library produced:         *)
(*   RebaseRaised / AuthorityRejected - undoing one's own steps, or          *)
(*       applying accepted steps to the document they were made for, failed *)
(*   AuthReplays   - the authority's document is not the client's           *)
(*   ConfirmedAgree - own steps undone + remote steps applied is not the    *)
(*       authority's document (exactly; up to marks while a mark step is    *)
(*       pending, whose inverse is exact only on its own base document)     *)
(*   Converged, Invalid                                                     *)
(* Reference clauses (drift:) compare with PMCollab's own result.           *)
(***************************************************************************)
EXTENDS PMCollab

Events == Input.events
Docs == Input.docs

VARIABLES i, tid, S, base, taint
vars == <<i, tid, S, base, taint>>
(* taint: the clients that have rebased while one of their mark steps was pending.  From then on their
   document may differ from the authority's in marks (the inverse of a mark step is exact only on the
   document the step was made on), so for them the clauses are stated up to marks for the rest of the run. *)
Exact(c) == c \notin taint /\ ~MarkPendingIn(S.cl[c].unconf)

UnconfOf(e) == [j \in 1..Len(e.unconf) |-> [step |-> e.unconf[j].step, inv |-> e.unconf[j].inv]]
(* the observed state of the acting client *)
Observed(e) == [doc |-> Snap(Docs[e.doc], e.ra), version |-> e.version, unconf |-> UnconfOf(e)]
AuthSnap(e) == Snap(Docs[e.auth], e.authra)
ConfirmedSnap(e) == Snap(Docs[e.confirmed], e.confirmedra)

VEdit(e) ==
  LET r == EditRes(S, e.c, e.step) IN
  IF e.res.kind = "raise" THEN "drift:EditRaised"
  ELSE IF e.res.kind = "failed" THEN (IF r.ok THEN "drift:EditRejected" ELSE "ok")
  ELSE IF ~r.ok THEN "drift:EditAccepted"
  ELSE IF r.S.cl[e.c] # Observed(e) THEN "drift:Edit"
  ELSE "ok"
(* While a mark step is pending the client's view of the confirmed document may differ from the
   authority's in marks (see PMCollab!ConfirmedAgreeOf); then a remote step can fail on it for its
   marks.  That is the protocol's imprecision, not the library's: such events are skipped. *)
VSend(e) ==
  LET exact == Exact(e.c) IN
  IF ~CanSend(S, e.c) THEN "bad:TraceOrder"
  ELSE IF e.res.kind # "ok" THEN (IF exact THEN "bad:AuthorityRejected" ELSE "skip:MarkPending")
  ELSE IF ~AgreeUpTo(exact, AuthSnap(e), S.cl[e.c].doc) THEN "bad:AuthReplays"
  ELSE IF ~Valid(Docs[e.auth]) THEN "bad:Invalid"
  ELSE LET r == SendRes(S, e.c) IN
       IF ~r.ok \/ r.S.auth.doc # AuthSnap(e) THEN "drift:Send" ELSE "ok"
VReceive(e) ==
  LET exact == Exact(e.c) IN
  IF ~CanReceive(S, e.c) THEN "bad:TraceOrder"
  ELSE IF e.res.kind # "ok" THEN (IF exact THEN "bad:RebaseRaised" ELSE "skip:MarkPending")
  ELSE IF ~AgreeUpTo(exact, ConfirmedSnap(e), S.auth.doc) THEN "bad:ConfirmedAgree"
  ELSE IF ~(Valid(Docs[e.doc]) /\ Canon(Docs[e.doc])) THEN "bad:Invalid"
  ELSE IF e.unconf = <<>> /\ ~AgreeUpTo(exact, Snap(Docs[e.doc], e.ra), S.auth.doc) THEN "bad:Converged"
  ELSE IF e.version # Len(S.auth.steps) THEN "bad:Version"
  ELSE LET r == ReceiveRes(S, e.c) IN
       IF ~r.ok THEN "drift:RebaseStuck"
       ELSE IF r.S.cl[e.c].doc # Snap(Docs[e.doc], e.ra) THEN "drift:RebaseDoc"
       ELSE IF r.S.cl[e.c] # Observed(e) THEN "drift:RebaseSteps"
       ELSE "ok"

(* the specification's state follows what was observed, so that the rest of the run is still judged *)
Follow(e) ==
  IF e.a = "edit" THEN (IF e.res.kind = "ok" THEN [S EXCEPT !.cl[e.c] = Observed(e)] ELSE S)
  ELSE IF e.a = "send" THEN
       (IF e.res.kind # "ok" THEN S
        ELSE [auth |-> [doc |-> AuthSnap(e), steps |-> S.auth.steps \o StepsOf(S.cl[e.c].unconf),
                        by |-> S.auth.by \o [j \in 1..Len(S.cl[e.c].unconf) |-> e.c]],
              cl |-> [S.cl EXCEPT ![e.c] = Observed(e)]])
  ELSE (IF e.res.kind = "ok" THEN [S EXCEPT !.cl[e.c] = Observed(e)] ELSE S)

TBegin(e) ==
  /\ tid' = e.tid
  /\ base' = Snap(Docs[e.base], e.ra)
  /\ S' = InitState(Snap(Docs[e.base], e.ra), 1..e.n)
  /\ taint' = {}
  /\ PrintT(<<"V", e.id, IF Valid(Docs[e.base]) /\ Canon(Docs[e.base]) THEN "ok" ELSE "skip:pre">>)
TAct(e) ==
  /\ tid' = tid /\ base' = base
  /\ PrintT(<<"V", e.id, IF e.tid # tid THEN "bad:TraceOrder"
                         ELSE IF e.a = "edit" THEN VEdit(e)
                         ELSE IF e.a = "send" THEN VSend(e) ELSE VReceive(e)>>)
  /\ S' = Follow(e)
  /\ taint' = IF e.tid = tid /\ e.a = "receive" /\ MarkPendingIn(S.cl[e.c].unconf) THEN taint \cup {e.c} ELSE taint
Init == taint = {} /\ i = 0 /\ tid = -1 /\ base = Snap(<<>>, <<>>) /\ S = [auth |-> [doc |-> Snap(<<>>, <<>>), steps |-> <<>>, by |-> <<>>], cl |-> <<>>]
Next == /\ i < Len(Events)
        /\ i' = i + 1
        /\ LET e == Events[i + 1] IN IF e.ev = "Begin" THEN TBegin(e) ELSE TAct(e)
Spec == Init /\ [][Next]_vars
=============================================================================
