---------------------------- MODULE Trace_Immutable ----------------------------
(***************************************************************************)
(* C10: documents and their parts are immutable values.                     *)
(* A driver holds every object it ever obtained from the library (live      *)
(* set, only growing) and, after every public call, re-reads all of them    *)
(* through the public read API.  The trace carries the snapshots:           *)
(*   [k |-> "v", h |-> digest]        a value object (document, fragment,   *)
(*                                     slice, mark, mark list, step, map,   *)
(*                                     shared singleton)                    *)
(*   [k |-> "a", hs |-> <<digests>>]  an accumulator (Transform: steps /    *)
(*                                     docs / maps; Mapping: maps, mirror)  *)
(* State: `live`, the snapshots after the previous call.  Action property   *)
(* (evaluated as a verdict so that every event is judged):                  *)
(*   Immutable  == \A i \in DOMAIN live : value objects keep their digest   *)
(*   AppendOnly == \A i \in DOMAIN live : accumulators only grow            *)
(***************************************************************************)
EXTENDS Integers, Sequences, TLC, Json, IOUtils

Input == JsonDeserialize(IOEnv.PMV_INPUT)
Events == Input.events

VARIABLES i, tid, live
vars == <<i, tid, live>>
IsPrefixSeq(s, t) == Len(s) <= Len(t) /\ SubSeq(t, 1, Len(s)) = s

Changed(old, new) == {j \in 1..Len(old) :
  IF old[j].k = "v" THEN new[j].k # "v" \/ new[j].h # old[j].h
  ELSE new[j].k # "a" \/ ~IsPrefixSeq(old[j].hs, new[j].hs)}
SetMin(S) == CHOOSE x \in S : \A y \in S : x <= y
VSnap(e) ==
  IF e.tid # tid THEN "ok"                      \* first snapshot of a session
  ELSE IF Len(e.snaps) < Len(live) THEN "bad:LiveSetShrank"
  ELSE LET ch == Changed(live, e.snaps) IN
       IF ch = {} THEN "ok"
       ELSE IF live[SetMin(ch)].k = "v" THEN "bad:Mutated@" \o ToString(SetMin(ch))
       ELSE "bad:AccumulatorRewritten@" \o ToString(SetMin(ch))
Init == i = 0 /\ tid = -1 /\ live = <<>>
Next == /\ i < Len(Events)
        /\ i' = i + 1
        /\ LET e == Events[i + 1] IN
           /\ PrintT(<<"V", e.id, VSnap(e)>>)
           /\ tid' = e.tid
           /\ live' = e.snaps
Spec == Init /\ [][Next]_vars
=============================================================================
