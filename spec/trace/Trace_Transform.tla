--------------------------- MODULE Trace_Transform ---------------------------
(***************************************************************************)
(* Trace validation of Transform sessions (C04, and the accumulator part of *)
(* C10).  Events of one session (same tid) come in order: "Begin" with the  *)
(* start document, then one "Op" per public Transform call with the full    *)
(* observable state of the accumulator after the call (steps, docs, maps,   *)
(* doc), the result of re-applying the recorded steps and of undoing them   *)
(* with the library's own invert/apply.  The trace spec carries the         *)
(* accumulator of the specification (PMTransform's variables) from event to *)
(* event and judges every event against it.                                 *)
(***************************************************************************)
EXTENDS PMTransform

Events == Input.events
Docs == Input.docs
Snap(di, a) == [d |-> Docs[di], ra |-> a]

VARIABLES i, tid
vars == <<i, tid, doc, ra, steps, docs, maps>>

SnapsOf(e) == [j \in 1..Len(e.docs) |-> Snap(e.docs[j], e.ras[j])]
MapsOf(e) == [j \in 1..Len(e.maps) |-> [ranges |-> e.maps[j], inv |-> FALSE]]

(* spec-level replay and undo of the *new* steps of this event *)
RefReplayOK(e, olds) ==
  \A j \in (olds + 1)..Len(e.steps) :
    LET pre == SnapsOf(e)[j]
        post == IF j = Len(e.steps) THEN Snap(e.doc, e.ra) ELSE SnapsOf(e)[j + 1]
        r == Apply(e.steps[j], pre.d, pre.ra) IN
    r.ok /\ r.doc = post.d /\ r.ra = post.ra
RefUndoOK(e, olds) ==
  \A j \in (olds + 1)..Len(e.steps) :
    LET pre == SnapsOf(e)[j]
        post == IF j = Len(e.steps) THEN Snap(e.doc, e.ra) ELSE SnapsOf(e)[j + 1]
        inv == InvertStep(e.steps[j], pre.d, pre.ra)
        r == Apply(inv, post.d, post.ra) IN
    r.ok /\ r.doc = pre.d /\ r.ra = pre.ra

VOp(e) ==
  LET n == Len(e.steps)
      olds == Len(steps)
      snaps == SnapsOf(e)
      cur == Snap(e.doc, e.ra) IN
  IF Len(e.docs) # n \/ Len(e.maps) # n THEN "bad:Aligned"
  ELSE IF ~IsPrefixOf(steps, e.steps) \/ ~IsPrefixOf(docs, snaps) \/ ~IsPrefixOf(maps, MapsOf(e)) THEN "bad:AppendOnly"
  ELSE IF n = olds /\ cur # Snapshot(doc, ra) THEN "bad:DocChangedWithoutStep"
  ELSE IF (IF n = 0 THEN cur ELSE snaps[1]) # Before THEN "bad:BeforeChanged"
  ELSE IF n > olds /\ snaps[olds + 1] # Snapshot(doc, ra) THEN "bad:DocsNotAligned"
  ELSE IF ~(\A j \in 1..n : e.maps[j] = e.stepmaps[j]) THEN "bad:MapsNotAligned"
  ELSE IF ~(Valid(Before.d) /\ Canon(Before.d)) THEN "skip:pre"
  ELSE IF e.replay.kind # "ok" THEN "bad:ReplayRaised"
  ELSE IF ~(\A j \in 1..n : Snap(e.replay.docs[j], e.replay.ras[j]) = (IF j = n THEN cur ELSE snaps[j + 1])) THEN "bad:Replay"
  ELSE IF e.undo.kind # "ok" THEN "bad:UndoRaised"
  ELSE IF Snap(e.undo.doc, e.undo.ra) # Before THEN "bad:Undo"
  ELSE IF ~RefReplayOK(e, olds) THEN "drift:RefReplay"
  ELSE IF ~RefUndoOK(e, olds) THEN "drift:RefUndo"
  ELSE "ok"

TBegin(e) ==
  /\ tid' = e.tid
  /\ doc' = Docs[e.doc] /\ ra' = e.ra
  /\ steps' = <<>> /\ docs' = <<>> /\ maps' = <<>>
  /\ PrintT(<<"V", e.id, "ok">>)
TOp(e) ==
  /\ tid' = tid
  /\ PrintT(<<"V", e.id, IF e.tid # tid THEN "bad:TraceOrder" ELSE VOp(e)>>)
  \* the specification's accumulator follows what was observed, so that the rest of the
  \* session is still judged after a rejected event
  /\ doc' = Docs[e.doc] /\ ra' = e.ra
  /\ steps' = e.steps /\ docs' = SnapsOf(e) /\ maps' = MapsOf(e)
Init == i = 0 /\ tid = -1 /\ doc = <<>> /\ ra = <<>> /\ steps = <<>> /\ docs = <<>> /\ maps = <<>>
Next == /\ i < Len(Events)
        /\ i' = i + 1
        /\ LET e == Events[i + 1] IN IF e.ev = "Begin" THEN TBegin(e) ELSE TOp(e)
Spec == Init /\ [][Next]_vars
=============================================================================
