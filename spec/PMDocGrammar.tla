---------------------------- MODULE PMDocGrammar ----------------------------
(***************************************************************************)
(* Token-by-token construction of schema-valid documents.  State: the      *)
(* tokens emitted so far and the stack of open nodes, each with the        *)
(* residual set of its content expression.  A token may be emitted iff the *)
(* residual of the innermost open node admits it (and the parent allows    *)
(* its marks).  Complete documents are the states with only the root open  *)
(* and the root residual accepting.  Used (a) as the generator of *all*    *)
(* valid documents within shape bounds and (b) as a second, incremental    *)
(* formulation of validity that is cross-checked against PMSchema!Valid.   *)
(* The vocabulary (attribute records per type, mark sets, code units) and  *)
(* the bounds come from Input.gen.                                         *)
(***************************************************************************)
EXTENDS PMSchema

Gen == Input.gen
MaxToks  == Gen.maxToks
MaxDepth == Gen.maxDepth
MaxRun   == Gen.maxRun
MaxKids  == Gen.maxKids          \* children per node (0 = unbounded)
CharSet  == Range(Gen.chars)
MarkSets == Range(Gen.marksets)  \* candidate mark sets (sequences of marks)
AttrsOf(n) == IF n \in DOMAIN Gen.attrs THEN Range(Gen.attrs[n]) ELSE {<<>>}
RootType == IF "root" \in DOMAIN Gen THEN Gen.root ELSE TopType

VARIABLES toks, stack
gvars == <<toks, stack>>
(* stack element: [t type, S residual set, n number of children so far] *)

GInit == toks = <<>> /\ stack = << [t |-> RootType, S |-> {ContentOf(RootType)}, n |-> 0] >>

Top == stack[Len(stack)]
SetTop(e) == [stack EXCEPT ![Len(stack)] = e]
KidsOK == MaxKids = 0 \/ Top.n < MaxKids
MarksFor(pt) == {ms \in MarkSets : AllowsMarks(pt, ms) /\ MarkNamesOK(ms) /\ CanonicalMarks(ms)}
Room(k) == Len(toks) + k <= MaxToks

EmitOpen(n, a, ms) ==
  /\ ~IsLeafType(n) /\ ~IsTextType(n)
  /\ Len(stack) <= MaxDepth
  /\ Room(2 + Len(stack) - 1) /\ KidsOK
  /\ Step1(Top.S, n) # {}
  /\ toks' = Append(toks, OpenTok(n, a, ms))
  /\ stack' = Append(SetTop([Top EXCEPT !.S = Step1(Top.S, n), !.n = @ + 1]),
                     [t |-> n, S |-> {ContentOf(n)}, n |-> 0])
EmitLeaf(n, a, ms) ==
  /\ IsLeafType(n) /\ ~IsTextType(n)
  /\ Room(1 + Len(stack) - 1) /\ KidsOK
  /\ Step1(Top.S, n) # {}
  /\ toks' = Append(toks, LeafTok(n, a, ms))
  /\ stack' = SetTop([Top EXCEPT !.S = Step1(Top.S, n), !.n = @ + 1])
RunLen == LET RECURSIVE back(_)
              back(i) == IF i >= 1 /\ toks[i].k = "x" /\ toks[i].m = toks[Len(toks)].m THEN 1 + back(i - 1) ELSE 0
          IN IF toks = <<>> THEN 0 ELSE back(Len(toks))
EmitChar(c, ms) ==
  /\ Room(1 + Len(stack) - 1)
  /\ LET cont == toks # <<>> /\ toks[Len(toks)].k = "x" /\ toks[Len(toks)].m = ms IN
     IF cont
     THEN /\ RunLen < MaxRun
          /\ toks' = Append(toks, TextTok(c, ms, FALSE))
          /\ UNCHANGED stack
     ELSE /\ KidsOK /\ Step1(Top.S, "text") # {}
          /\ toks' = Append(toks, TextTok(c, ms, TRUE))
          /\ stack' = SetTop([Top EXCEPT !.S = Step1(Top.S, "text"), !.n = @ + 1])
EmitClose ==
  /\ Len(stack) > 1
  /\ Accepting(Top.S)
  /\ toks' = Append(toks, CloseTok)
  /\ stack' = Front(stack)

GNext ==
  \/ \E n \in NodeNames : \E a \in AttrsOf(n) : \E ms \in MarksFor(Top.t) :
       EmitOpen(n, a, ms) \/ EmitLeaf(n, a, ms)
  \/ \E c \in CharSet : \E ms \in MarksFor(Top.t) : EmitChar(c, ms)
  \/ EmitClose

Complete == Len(stack) = 1 /\ Accepting(stack[1].S)
=============================================================================
