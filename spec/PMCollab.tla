------------------------------- MODULE PMCollab -------------------------------
(***************************************************************************)
(* Collaborative editing: a central authority with a versioned step log and *)
(* clients that edit locally, send their unconfirmed steps when they are    *)
(* up to date, and otherwise receive new steps and rebase their unconfirmed *)
(* steps over them (prosemirror-collab's protocol; the reason Mapping has   *)
(* mirrors).  A document value is a snapshot [d, ra]: tokens + root attrs.  *)
(*                                                                          *)
(*   auth : [doc, steps : Seq(step), by : Seq(client)]                      *)
(*   cl   : [client -> [doc, version, unconf : Seq([step, inv])]]           *)
(*                                                                          *)
(* Rebase follows rebaseSteps: undo the unconfirmed steps (their inverses), *)
(* apply the remote steps, then re-apply each unconfirmed step mapped       *)
(* through the slice of the growing mapping that starts at its own inverse, *)
(* registering the re-applied step as the mirror of that inverse.           *)
(***************************************************************************)
EXTENDS PMStep

NoStep == [type |-> "none"]
(* a document value = tokens + root attributes (doc-attr steps change the latter) *)
Snap(d, ra) == [d |-> d, ra |-> ra]
ApplyS(s, x) == LET r == Apply(s, x.d, x.ra) IN
                IF r.ok THEN [ok |-> TRUE, x |-> Snap(r.doc, r.ra)] ELSE [ok |-> FALSE, x |-> x]
InvertS(s, x) == InvertStep(s, x.d, x.ra)

(* fold a sequence of steps over a document, collecting maps; all must apply *)
RECURSIVE ApplyAll(_, _, _)
ApplyAll(ss, x, mp) ==
  IF ss = <<>> THEN [ok |-> TRUE, doc |-> x, mp |-> mp]
  ELSE LET r == ApplyS(Head(ss), x) IN
       IF ~r.ok THEN [ok |-> FALSE, doc |-> x, mp |-> mp]
       ELSE ApplyAll(Tail(ss), r.x, MAppendMap(mp, GetMap(Head(ss)), -1))

InversesOf(unconf) == [i \in 1..Len(unconf) |-> unconf[Len(unconf) + 1 - i].inv]

RECURSIVE Reapply(_, _, _, _, _, _)
(* i-th unconfirmed step; mapFrom = index (0-based) of the first map to map it through *)
Reapply(unconf, i, mapFrom, x, mp, out) ==
  IF i > Len(unconf) THEN [doc |-> x, mp |-> mp, unconf |-> out]
  ELSE LET mapped == MapStep(unconf[i].step, MSlice(mp, mapFrom, Len(mp.maps)))
           r == IF mapped.type = "none" THEN [ok |-> FALSE, x |-> x] ELSE ApplyS(mapped, x) IN
       IF r.ok
       THEN Reapply(unconf, i + 1, mapFrom - 1, r.x,
                    MAppendMap(mp, GetMap(mapped), mapFrom - 1),
                    Append(out, [step |-> mapped, inv |-> InvertS(mapped, x)]))
       ELSE Reapply(unconf, i + 1, mapFrom - 1, x, mp, out)

(* rebase the unconfirmed steps of a client whose document is x over the remote steps *)
Rebase(x, unconf, remote) ==
  LET undone == ApplyAll(InversesOf(unconf), x, EmptyMapping)
      over == ApplyAll(remote, undone.doc, undone.mp) IN
  IF ~undone.ok \/ ~over.ok THEN [ok |-> FALSE, doc |-> x, unconf |-> unconf]
  ELSE LET r == Reapply(unconf, 1, Len(unconf), over.doc, over.mp, <<>>) IN
       [ok |-> TRUE, doc |-> r.doc, unconf |-> r.unconf]

(* the document a client would have with none of its unconfirmed steps *)
ConfirmedDoc(c) == ApplyAll(InversesOf(c.unconf), c.doc, EmptyMapping)

(* ---- the protocol as functions of a state S = [auth, cl]; `base` is a Snap ---- *)
StepsOf(unconf) == [i \in 1..Len(unconf) |-> unconf[i].step]
InitState(base, clients) ==
  [auth |-> [doc |-> base, steps |-> <<>>, by |-> <<>>],
   cl |-> [c \in clients |-> [doc |-> base, version |-> 0, unconf |-> <<>>]]]
(* a local edit: one step applied to the client's own document *)
EditRes(S, c, s) ==
  LET r == ApplyS(s, S.cl[c].doc) IN
  IF ~r.ok THEN [ok |-> FALSE, S |-> S]
  ELSE [ok |-> TRUE,
        S |-> [S EXCEPT !.cl[c].doc = r.x,
                        !.cl[c].unconf = Append(@, [step |-> s, inv |-> InvertS(s, S.cl[c].doc)])]]
(* the authority accepts steps only from a client that has seen its whole log *)
CanSend(S, c) == S.cl[c].unconf # <<>> /\ S.cl[c].version = Len(S.auth.steps)
SendRes(S, c) ==
  LET u == S.cl[c].unconf
      r == ApplyAll(StepsOf(u), S.auth.doc, EmptyMapping) IN
  [ok |-> r.ok,
   S |-> [auth |-> [doc |-> r.doc, steps |-> S.auth.steps \o StepsOf(u),
                    by |-> S.auth.by \o [i \in 1..Len(u) |-> c]],
          cl |-> [S.cl EXCEPT ![c].unconf = <<>>, ![c].version = Len(S.auth.steps) + Len(u)]]]
CanReceive(S, c) == S.cl[c].version < Len(S.auth.steps)
NewFor(S, c) == SubSeq(S.auth.steps, S.cl[c].version + 1, Len(S.auth.steps))
ReceiveRes(S, c) ==
  LET r == Rebase(S.cl[c].doc, S.cl[c].unconf, NewFor(S, c)) IN
  [ok |-> r.ok,
   S |-> [S EXCEPT !.cl[c].doc = r.doc, !.cl[c].unconf = r.unconf, !.cl[c].version = Len(S.auth.steps)]]

(* ---- safety of a state ---- *)
DocAtVersion(S, base, v) == ApplyAll(SubSeq(S.auth.steps, 1, v), base, EmptyMapping).doc
AuthReplaysOf(S, base) == LET r == ApplyAll(S.auth.steps, base, EmptyMapping) IN r.ok /\ r.doc = S.auth.doc
(* The inverse of an add-mark step removes the mark from the whole range, also where a
   concurrent remote step had added the same mark (mark steps are only invertible against
   the document they were made on); so undoing one's unconfirmed steps gives the authority's
   document exactly when no mark step is pending, and up to marks otherwise. *)
NoMarks(d) == Unflag([i \in 1..Len(d) |-> [d[i] EXCEPT !.m = <<>>]])
MarkPendingIn(unconf) == \E i \in 1..Len(unconf) : unconf[i].step.type \in {"addMark", "removeMark"}
AgreeUpTo(exact, x1, x2) == NoMarks(x1.d) = NoMarks(x2.d) /\ x1.ra = x2.ra /\ (exact => x1 = x2)
ConfirmedAgreeOf(S, base) == \A c \in DOMAIN S.cl :
  LET u == ConfirmedDoc(S.cl[c]) IN
  u.ok /\ AgreeUpTo(~MarkPendingIn(S.cl[c].unconf), u.doc, DocAtVersion(S, base, S.cl[c].version))
AllValidOf(S) == Valid(S.auth.doc.d) /\ \A c \in DOMAIN S.cl : Valid(S.cl[c].doc.d) /\ Canon(S.cl[c].doc.d)
ConvergedOf(S) == \A c \in DOMAIN S.cl :
  (S.cl[c].version = Len(S.auth.steps) /\ S.cl[c].unconf = <<>>) => S.cl[c].doc = S.auth.doc
(* a rebase never fails: the inverses of one's own steps and the authority's steps always apply *)
NeverStuckOf(S) == \A c \in DOMAIN S.cl : CanReceive(S, c) => ReceiveRes(S, c).ok
=============================================================================
