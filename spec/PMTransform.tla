----------------------------- MODULE PMTransform -----------------------------
(***************************************************************************)
(* The editing session: what a Transform accumulates.                       *)
(*   doc, ra   current document (tokens, root attrs)                        *)
(*   steps     steps applied so far                                         *)
(*   docs      docs[i] = document (with root attrs) before steps[i]         *)
(*   maps      maps[i] = position map of steps[i]                           *)
(* One primitive action: Step(s) appends iff the step applies; a step that  *)
(* does not apply leaves everything unchanged (the rejection is observable  *)
(* only through the result).  High-level operations are finite sequences of *)
(* Step actions.                                                            *)
(***************************************************************************)
EXTENDS PMStep

VARIABLES doc, ra, steps, docs, maps
tvars == <<doc, ra, steps, docs, maps>>

TInit(d0, ra0) == doc = d0 /\ ra = ra0 /\ steps = <<>> /\ docs = <<>> /\ maps = <<>>
Snapshot(d, a) == [d |-> d, ra |-> a]
Before == IF docs = <<>> THEN Snapshot(doc, ra) ELSE docs[1]

TStep(s) ==
  LET r == Apply(s, doc, ra) IN
  IF r.ok
  THEN /\ docs' = Append(docs, Snapshot(doc, ra))
       /\ steps' = Append(steps, s)
       /\ maps' = Append(maps, GetMap(s))
       /\ doc' = r.doc /\ ra' = r.ra
  ELSE UNCHANGED tvars

DocAfter(i) == IF i = Len(steps) THEN Snapshot(doc, ra) ELSE docs[i + 1]
Aligned == Len(docs) = Len(steps) /\ Len(maps) = Len(steps)
Replays == \A i \in 1..Len(steps) :
  LET r == Apply(steps[i], docs[i].d, docs[i].ra) IN
  r.ok /\ Snapshot(r.doc, r.ra) = DocAfter(i) /\ maps[i] = GetMap(steps[i])
RECURSIVE UndoFrom(_, _)
(* apply the inverses of steps i, i-1, ..., 1 to snapshot s *)
UndoFrom(i, s) ==
  IF i = 0 THEN [ok |-> TRUE, s |-> s]
  ELSE LET inv == InvertStep(steps[i], docs[i].d, docs[i].ra)
           r == Apply(inv, s.d, s.ra) IN
       IF r.ok THEN UndoFrom(i - 1, Snapshot(r.doc, r.ra)) ELSE [ok |-> FALSE, s |-> s]
Undoable == LET u == UndoFrom(Len(steps), Snapshot(doc, ra)) IN u.ok /\ u.s = Before
AppendOnly == [][IsPrefixOf(steps, steps') /\ IsPrefixOf(docs, docs') /\ IsPrefixOf(maps, maps')]_tvars
AllValid == Valid(doc) /\ \A i \in 1..Len(docs) : Valid(docs[i].d)
=============================================================================
