-------------------------------- MODULE PMDom --------------------------------
(***************************************************************************)
(* HTML export / import (C19).                                              *)
(* An HTML fragment is a sequence of HTML tokens                            *)
(*   [k |-> "o" | "c" | "v" | "t", tag, attrs : Seq([n, v]), text : Seq(unit)] *)
(* ("v" = void element such as br/hr/img).  The harness obtains it from the  *)
(* serialised string with a real HTML tokenizer, so wrong escaping shows up  *)
(* as different tags, attributes or text.                                    *)
(* The published rendering rules of the bundled schemas are data             *)
(* (Input.dom): per node type the tag (possibly chosen by an attribute), an  *)
(* optional inner wrapper tag, and the attributes carried; per mark type    *)
(* the tag and attributes.  Attribute values are canonical JSON strings;     *)
(* null attributes are omitted.                                             *)
(***************************************************************************)
EXTENDS PMSchema

Dom == Input.dom
MarkAttrs(m) == Input.markattrs[m.a]          \* record attr name -> canonical value, per opaque mark-attrs string

HOpen(tag, attrs) == [k |-> "o", tag |-> tag, attrs |-> attrs, text |-> <<>>]
HVoid(tag, attrs) == [k |-> "v", tag |-> tag, attrs |-> attrs, text |-> <<>>]
HClose(tag) == [k |-> "c", tag |-> tag, attrs |-> <<>>, text |-> <<>>]
HText(us) == [k |-> "t", tag |-> "", attrs |-> <<>>, text |-> us]

(* attributes carried by a rule: [html, doc, omit] - omitted when null or equal to `omit` *)
RenderAttrs(specs, vals) ==
  LET keep == SelectSeq(specs, LAMBDA sp : sp.doc \in DOMAIN vals /\ vals[sp.doc] # "null" /\ vals[sp.doc] # sp.omit) IN
  [j \in 1..Len(keep) |-> [n |-> keep[j].html, v |-> vals[keep[j].doc]]]
NodeRule(t) == Dom.nodes[t]
NodeTag(tok) == LET r == NodeRule(tok.t) IN IF r.tagAttr = "" THEN r.tag ELSE r.tags[tok.a[r.tagAttr]]
MarkOpen(m) == LET r == Dom.marks[m.t] IN HOpen(r.tag, RenderAttrs(r.attrs, MarkAttrs(m)))
MarkClose(m) == HClose(Dom.marks[m.t].tag)
Rendered(ms) == SelectSeq(ms, LAMBDA m : m.t \in DOMAIN Dom.marks)

RECURSIVE CommonPrefix(_, _)
CommonPrefix(a, b) == IF a # <<>> /\ b # <<>> /\ Head(a) = Head(b) THEN 1 + CommonPrefix(Tail(a), Tail(b)) ELSE 0
ClosesFor(active, keep) == [j \in 1..(Len(active) - keep) |-> MarkClose(active[Len(active) + 1 - j])]
OpensFor(ms, keep) == [j \in 1..(Len(ms) - keep) |-> MarkOpen(ms[keep + j])]

(* render the children lo..hi of a node; `active` is the stack of open marks *)
RECURSIVE RenderKids(_, _, _, _, _)
RenderKids(d, M, kids, j, active) ==
  IF j > Len(kids) THEN ClosesFor(active, 0)
  ELSE LET kid == kids[j]
           ms == Rendered(kid.m)
           keep == CommonPrefix(active, ms)
           pre == ClosesFor(active, keep) \o OpensFor(ms, keep)
           tok == d[kid.s]
           body ==
             IF kid.t = "text" THEN << HText([x \in 1..(kid.e - kid.s + 1) |-> d[kid.s + x - 1].c]) >>
             ELSE LET r == NodeRule(kid.t)
                      attrs == RenderAttrs(r.attrs, tok.a) IN
                  IF r.void THEN << HVoid(NodeTag(tok), attrs) >>
                  ELSE << HOpen(NodeTag(tok), attrs) >>
                       \o (IF r.inner # "" THEN << HOpen(r.inner, <<>>) >> ELSE <<>>)
                       \o (IF tok.k = "o" THEN RenderKids(d, M, Kids(d, M, kid.s + 1, kid.e - 1), 1, <<>>) ELSE <<>>)
                       \o (IF r.inner # "" THEN << HClose(r.inner) >> ELSE <<>>)
                       \o << HClose(NodeTag(tok)) >>
       IN pre \o body \o RenderKids(d, M, kids, j + 1, ms)
Render(d) == LET M == MatchArr(d) IN RenderKids(d, M, Kids(d, M, 1, Len(d)), 1, <<>>)
(* adjacent text tokens of the tokenizer are one text; merge for comparison *)
RECURSIVE MergeText(_)
MergeText(h) ==
  IF Len(h) < 2 THEN h
  ELSE IF h[1].k = "t" /\ h[2].k = "t" THEN MergeText(<<HText(h[1].text \o h[2].text)>> \o SubSeq(h, 3, Len(h)))
  ELSE <<h[1]>> \o MergeText(Tail(h))
Renderable(d) == \A i \in 1..Len(d) : d[i].k \in {"o", "l"} => d[i].t \in DOMAIN Dom.nodes

(* ---- whitespace-normal documents: the round trip is claimed for these ---- *)
IsWs(c) == c \in {9, 10, 12, 13, 32}
TextblockText(d, M, i) == LET xs == SelectSeq(SubSeq(d, i + 1, M[i] - 1), LAMBDA x : x.k # "c") IN xs
WsNormalBlock(d, M, i) ==
  LET inl == SubSeq(d, i + 1, M[i] - 1)
      n == Len(inl) IN
  IF Flag(d[i].t, "code")
  THEN \A j \in 1..n : inl[j].k = "x" => inl[j].c # 13
  ELSE /\ \A j \in 1..n : inl[j].k = "x" /\ IsWs(inl[j].c) => inl[j].c = 32
       /\ n > 0 => ~(inl[1].k = "x" /\ inl[1].c = 32) /\ ~(inl[n].k = "x" /\ inl[n].c = 32)
       /\ \A j \in 1..(n - 1) : ~(inl[j].k = "x" /\ inl[j].c = 32 /\ inl[j + 1].k = "x" /\ inl[j + 1].c = 32)
       \* a space next to a line break (hard_break) is collapsed by the parser's white-space rule
       \* (only after a <br>: after an image or another inline leaf the space is content and must survive)
       /\ \A j \in 1..(n - 1) : ~(inl[j].k = "l" /\ inl[j].t \in DOMAIN Dom.nodes /\ Dom.nodes[inl[j].t].tag = "br"
                                    /\ inl[j + 1].k = "x" /\ inl[j + 1].c = 32)
WsNormal(d) == LET M == MatchArr(d) IN
  \A i \in 1..Len(d) : (d[i].k = "o" /\ IsTextblock(d[i].t)) => WsNormalBlock(d, M, i)
(* attributes the pinned bundled rules carry both ways *)
RoundTripAttrs(d) == \A i \in 1..Len(d) : d[i].k \in {"o", "l"} =>
  \A a \in DOMAIN d[i].a :
    LET r == NodeRule(d[i].t) IN
    \/ \E j \in 1..Len(r.back) : r.back[j] = a
    \/ \E j \in 1..Len(r.fixed) : r.fixed[j].n = a /\ r.fixed[j].v = d[i].a[a]
MarksRoundTrip(d) == \A i \in 1..Len(d) : d[i].k # "c" => \A j \in 1..Len(d[i].m) :
  LET m == d[i].m[j]
      r == Dom.marks[m.t]
      vals == MarkAttrs(m) IN
  \A a \in DOMAIN vals : (\E q \in 1..Len(r.back) : r.back[q] = a) \/ (\E q \in 1..Len(r.fixed) : r.fixed[q].n = a /\ r.fixed[q].v = vals[a])

(* ---- style parse rules ---- *)
(* rules: sequence of [prop, value, mark] as the schema author declared them ("font-style=italic" -> value "italic",   *)
(* "font-weight" -> value "" = any value); decls: the declarations of one style attribute, [prop, value].  A mark is  *)
(* applied to the element's content when some rule for it matches some declaration and the parent may hold it.        *)
StyleMarks(rules, decls) ==
  {rules[r].mark : r \in {r \in 1..Len(rules) :
      \E d \in 1..Len(decls) : rules[r].prop = decls[d].prop /\ (rules[r].value = "" \/ rules[r].value = decls[d].value)}}

(* ---- context expressions of parse rules ---- *)
(* alt: sequence of parts ("" for empty parts); stack: type names root..innermost *)
InGroupOrName(t, part) == t = part \/ part \in Range(NT(t).groups)
RECURSIVE CtxMatch(_, _, _, _)
CtxMatch(parts, stack, i, depth) ==
  \* i: 1-based index into parts (0 = done); depth: 1-based index into stack (0 = above the root)
  IF i = 0 THEN TRUE
  ELSE IF parts[i] = ""
  THEN IF i = Len(parts) \/ i = 1 THEN CtxMatch(parts, stack, i - 1, depth)
       ELSE \E dd \in 1..depth : CtxMatch(parts, stack, i - 1, dd)
  ELSE depth >= 1 /\ InGroupOrName(stack[depth], parts[i]) /\ CtxMatch(parts, stack, i - 1, depth - 1)
ContextMatches(alts, stack) == \E a \in 1..Len(alts) : CtxMatch(alts[a], stack, Len(alts[a]), Len(stack))
=============================================================================
