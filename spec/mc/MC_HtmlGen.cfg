SPECIFICATION Spec
CHECK_DEADLOCK FALSE
INVARIANT WellNested
INVARIANT Emit
