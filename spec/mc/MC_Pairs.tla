------------------------------ MODULE MC_Pairs ------------------------------
(***************************************************************************)
(* C16 and C17 on the specification.  For every start document of           *)
(* Input.starts and every ordered pair of steps from the step universe:     *)
(*  MergeLaw  - if s2 applies to the result of s1 and Merge(s1, s2) is      *)
(*    defined, the merged step applied to *every* document of the universe  *)
(*    on which the pair applies gives the same document as the pair;        *)
(*  CommuteLaw - if A and B both apply to the document and the tokens they  *)
(*    touch are separated by at least one untouched token, then rebasing    *)
(*    each over the other's map drops neither, both orders apply and agree. *)
(***************************************************************************)
EXTENDS PMStep

Starts == Input.starts
MarkU == Range(Input.marks)
(* two-level fan-out so that TLC's workers share the start documents: the invariants of
   the level-2 states are evaluated by the worker that expands their level-1 parent *)
VARIABLES k, lane
Lanes == 16
Init == k = 0 /\ lane = 0
Next == \/ k = 0 /\ lane = 0 /\ lane' \in 1..Lanes /\ k' = 0
        \/ k = 0 /\ lane > 0 /\ k' \in {x \in 1..Len(Starts) : x % Lanes = lane - 1} /\ lane' = lane
Spec == Init /\ [][Next]_<<k, lane>>
doc == IF k = 0 THEN <<>> ELSE Starts[k]

Pos == 0..Len(doc)
Rng == {<<f, t>> \in Pos \X Pos : f <= t}
CutsOf(d) == {Cut(d, r[1], r[2]) : r \in {<<f, t>> \in (0..Len(d)) \X (0..Len(d)) : f <= t /\ t - f <= 2}}
WrapTypes == {n \in NodeNames : ~IsLeafType(n) /\ ~IsTextType(n) /\ n # TopType /\ NT(n).attrs = <<>>}
WrapSlice(n) == [toks |-> <<OpenTok(n, <<>>, <<>>), CloseTok>>, os |-> 0, oe |-> 0]
ReplU(d) == {[type |-> "replace", from |-> r[1], to |-> r[2], slice |-> s, structure |-> FALSE] :
               r \in {<<f, t>> \in (0..Len(d)) \X (0..Len(d)) : f <= t}, s \in CutsOf(doc) \cup {EmptySlice}}
MarkStepU(d) == {[type |-> ty, from |-> r[1], to |-> r[2], mark |-> m] :
               ty \in {"addMark", "removeMark"}, r \in {<<f, t>> \in (0..Len(d)) \X (0..Len(d)) : f < t}, m \in MarkU}
AroundU(d) == {[type |-> "replaceAround", from |-> r[1], to |-> r[2], gapFrom |-> r[1], gapTo |-> r[2],
                insert |-> 1, slice |-> WrapSlice(w), structure |-> TRUE] :
               r \in {<<f, t>> \in (0..Len(d)) \X (0..Len(d)) : f < t}, w \in WrapTypes}
            \cup {[type |-> "replaceAround", from |-> r[1], to |-> r[2], gapFrom |-> r[1] + 1, gapTo |-> r[2] - 1,
                   insert |-> 0, slice |-> EmptySlice, structure |-> TRUE] :
               r \in {<<f, t>> \in (0..Len(d)) \X (0..Len(d)) : t - f >= 2}}
NodeU(d) == {[type |-> ty, pos |-> p, mark |-> m] : ty \in {"addNodeMark", "removeNodeMark"}, p \in 0..Len(d), m \in MarkU}
AllU(d) == ReplU(d) \cup MarkStepU(d) \cup AroundU(d) \cup NodeU(d)
Applies(s, d) == Apply(s, d, <<>>).ok
Res(s, d) == Apply(s, d, <<>>).doc

MergeLaw == k # 0 =>
  \A s1 \in {s \in ReplU(doc) \cup MarkStepU(doc) : Applies(s, doc)} :
    LET d1 == Res(s1, doc) IN
    \A s2 \in {s \in ReplU(d1) \cup MarkStepU(d1) : Applies(s, d1)} :
      LET m == Merge(s1, s2) IN
      m.type # "none" =>
        \A j \in 1..Len(Starts) :
          LET e == Starts[j] IN
          (Applies(s1, e) /\ Applies(s2, Res(s1, e))) =>
             (Applies(m, e) /\ Res(m, e) = Res(s2, Res(s1, e)))

Separated(a, b) == LET ta == TouchedIn(a, doc)  tb == TouchedIn(b, doc) IN
  ta[1] <= ta[2] /\ tb[1] <= tb[2] /\ (ta[2] + 1 <= tb[1] \/ tb[2] + 1 <= ta[1])
CommuteLaw == k # 0 =>
  \A a \in {s \in AllU(doc) : Applies(s, doc)} :
    \A b \in {s \in AllU(doc) : Applies(s, doc) /\ Separated(a, s)} :
      LET am == MapOver(a, GetMap(b))
          bm == MapOver(b, GetMap(a)) IN
      /\ am.type # "none" /\ bm.type # "none"
      /\ Applies(bm, Res(a, doc)) /\ Applies(am, Res(b, doc))
      /\ Res(bm, Res(a, doc)) = Res(am, Res(b, doc))
=============================================================================
