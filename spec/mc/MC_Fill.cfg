SPECIFICATION Spec
CHECK_DEADLOCK FALSE
INVARIANT FillAgree
INVARIANT WrapAgree
