SPECIFICATION Spec
CHECK_DEADLOCK FALSE
CONSTRAINT SizeBound
INVARIANT Emit
