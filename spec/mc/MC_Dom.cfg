SPECIFICATION Spec
CHECK_DEADLOCK FALSE
INVARIANT RenderWellNested
INVARIANT RenderKeepsText
INVARIANT ContextAgrees
