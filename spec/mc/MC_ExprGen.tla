------------------------------ MODULE MC_ExprGen ------------------------------
(***************************************************************************)
(* Enumerates every content-expression syntax tree with up to MaxSize       *)
(* operators/atoms over the atoms of Input.atoms and the range forms of     *)
(* Input.ranges, and prints each as JSON (pipeline G for C06 / C15).        *)
(***************************************************************************)
EXTENDS PMExprSyntax

Atoms == Range(Input.atoms)
RangeSpecs == Range(Input.ranges)      \* <<min, max>> pairs, max = -1 unbounded
MaxSize == Input.maxSize

RECURSIVE ExprsOfSize(_)
ExprsOfSize(n) ==
  IF n = 1 THEN {MkName(r) : r \in Atoms}
  ELSE LET sub == ExprsOfSize(n - 1) IN
       {MkOp(o, <<x>>) : o \in {"star", "plus", "opt"}, x \in sub}
       \cup {MkRange(x, r[1], r[2]) : x \in sub, r \in RangeSpecs}
       \cup UNION {{MkOp(o, <<x, y>>) : o \in {"seq", "choice"}, x \in ExprsOfSize(i), y \in ExprsOfSize(n - 1 - i)}
                   : i \in 1..(n - 2)}

VARIABLE e
Init == e \in UNION {ExprsOfSize(n) : n \in 1..MaxSize}
Next == UNCHANGED e
Spec == Init /\ [][Next]_e
Emit == PrintT(ToJson(e))
(* the recogniser reads back what the printer prints (nested seq/choice are parenthesised by Render,
   so every enumerated tree is its own normal form) *)
RoundTrip == LET r == Parse(Render(e)) IN r.ok /\ r.e = e
=============================================================================
