------------------------------- MODULE MC_Diff -------------------------------
(***************************************************************************)
(* C20 on the specification: laws of DiffStart / DiffEnd over all ordered   *)
(* pairs of small valid documents (Input.docs, TLC-generated).              *)
(***************************************************************************)
EXTENDS PMDiff
Ds == Input.docs
VARIABLES x, y
Init == x \in 1..Len(Ds) /\ y \in 1..Len(Ds)
Next == UNCHANGED <<x, y>>
Spec == Init /\ [][Next]_<<x, y>>
A == Ds[x]
B == Ds[y]
NoneIffEqual == /\ (DiffStart(A, B) = NoDiff) <=> (Unflag(A) = Unflag(B))
                /\ (DiffEnd(A, B) = <<NoDiff, NoDiff>>) <=> (Unflag(A) = Unflag(B))
Symmetric == /\ DiffStart(A, B) = DiffStart(B, A)
             /\ DiffEnd(A, B) = <<DiffEnd(B, A)[2], DiffEnd(B, A)[1]>>
(* the reported prefix really is common and maximal *)
StartExact == LET n == DiffStart(A, B) IN n # NoDiff =>
  /\ SubSeq(Unflag(A), 1, n) = SubSeq(Unflag(B), 1, n)
  /\ (n < Len(A) /\ n < Len(B)) => Unflag(A)[n + 1] # Unflag(B)[n + 1]
(* the reported suffixes have equal length and equal tokens *)
EndExact == LET r == DiffEnd(A, B) IN r[1] # NoDiff =>
  /\ Len(A) - r[1] = Len(B) - r[2]
  /\ SubSeq(Unflag(A), r[1] + 1, Len(A)) = SubSeq(Unflag(B), r[2] + 1, Len(B))
=============================================================================
