----------------------------- MODULE MC_Structure -----------------------------
(***************************************************************************)
(* C12 on the specification: the closed forms of split, join and wrap       *)
(* change structure only - they preserve balance and the leaf sequence -    *)
(* and join undoes split; over every small document of a list schema.       *)
(***************************************************************************)
EXTENDS PMOps, PMDocGrammar
Spec == GInit /\ [][GNext]_gvars
d == toks
Pos == 0..Len(d)
SplitLaw == Complete => \A p \in Pos : \A n \in 1..Depth(d, p) :
  LET s == SplitRef(d, p, n, <<>>) IN
  /\ Balanced(s) /\ LeafSeq(s) = LeafSeq(d) /\ Len(s) = Len(d) + 2 * n
  /\ JoinRef(s, p + n, n) = d
JoinLaw == Complete => \A p \in Pos : \A n \in 1..2 :
  (p - n >= 0 /\ p + n <= Len(d)
   /\ (\A i \in (p - n + 1)..p : d[i].k = "c") /\ (\A i \in (p + 1)..(p + n) : d[i].k = "o")) =>
    LET j == JoinRef(d, p, n) IN Balanced(j) /\ LeafSeq(j) = LeafSeq(d)
WrapLaw == Complete => \A s \in Pos : \A e \in Pos :
  (s <= e /\ Depth(d, s) = Depth(d, e) /\ SharedDepth(d, s, e) = Depth(d, s)) =>
    LET w == WrapRef(d, s, e, << [t |-> "bq", a |-> <<>>] >>) IN
    Balanced(w) /\ LeafSeq(w) = LeafSeq(d)
=============================================================================
