------------------------------- MODULE MC_Dom -------------------------------
(***************************************************************************)
(* C19 on the specification: the rendering of every small bundled document  *)
(* is a well-nested HTML token sequence in which every mark and node is      *)
(* closed by its own tag, text is preserved, and the context-expression      *)
(* matcher agrees with a brute-force path matcher.                           *)
(***************************************************************************)
EXTENDS PMDom, PMDocGrammar
Spec == GInit /\ [][GNext]_gvars
d == toks
RECURSIVE Nested(_, _)
Nested(h, st) ==
  IF h = <<>> THEN st = <<>>
  ELSE LET x == Head(h) IN
       IF x.k = "o" THEN Nested(Tail(h), Append(st, x.tag))
       ELSE IF x.k = "c" THEN st # <<>> /\ st[Len(st)] = x.tag /\ Nested(Tail(h), SubSeq(st, 1, Len(st) - 1))
       ELSE Nested(Tail(h), st)
RenderWellNested == Complete => Nested(Render(d), <<>>)
RECURSIVE HText_(_)
HText_(h) == IF h = <<>> THEN <<>> ELSE (IF Head(h).k = "t" THEN Head(h).text ELSE <<>>) \o HText_(Tail(h))
RenderKeepsText == Complete => HText_(Render(d)) = TextOf(d)
(* brute-force: a context alternative without "//" is a suffix pattern on the stack *)
SimpleAlt(parts) == \A i \in 2..(Len(parts) - 1) : parts[i] # ""
Trim(parts) == SelectSeq(parts, LAMBDA p : p # "")
SuffixMatch(parts, stk) ==
  LET ps == Trim(parts) IN
  Len(ps) <= Len(stk) /\ \A j \in 1..Len(ps) : InGroupOrName(stk[Len(stk) - Len(ps) + j], ps[j])
CtxAlts == { <<"blockquote", "">>, <<"doc", "", "">>, <<"paragraph", "">>, <<"doc", "blockquote", "">>, <<"block", "">>, <<"blockquote", "", "paragraph", "">> }
Stacks == { <<"doc">>, <<"doc", "paragraph">>, <<"doc", "blockquote">>, <<"doc", "blockquote", "paragraph">>,
            <<"doc", "blockquote", "blockquote", "paragraph">>, <<"doc", "bullet_list", "list_item", "paragraph">> }
ContextAgrees == \A a \in CtxAlts : \A s \in Stacks :
  SimpleAlt(a) => (CtxMatch(a, s, Len(a), Len(s)) <=> SuffixMatch(a, s))
=============================================================================
