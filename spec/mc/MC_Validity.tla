----------------------------- MODULE MC_Validity -----------------------------
(***************************************************************************)
(* C07 on the specification: two independent formulations of validity       *)
(* agree on every token sequence - valid or not - up to a length bound:      *)
(*  - declarative: PMSchema!ValidUnder (content expression at every node,    *)
(*    allowed marks, canonical mark sets);                                   *)
(*  - incremental: a run of the document grammar machine (PMDocGrammar's      *)
(*    transition rules replayed deterministically over the sequence).        *)
(* The state machine enumerates arbitrary token sequences over the token      *)
(* vocabulary of Input.gen (not only valid ones).                            *)
(***************************************************************************)
EXTENDS PMSchema

Gen == Input.gen
MaxToks == Gen.maxToks
Vocabulary == Range(Gen.vocab)     \* tokens
VARIABLE d
Init == d = <<>>
Next == Len(d) < MaxToks /\ \E tok \in Vocabulary : d' = Append(d, tok)
Spec == Init /\ [][Next]_d

(* deterministic replay of the grammar machine: stack of [t, S]; returns TRUE iff accepted *)
RECURSIVE Accept(_, _, _)
Accept(s, i, stack) ==
  LET top == stack[Len(stack)] IN
  IF i > Len(s) THEN Len(stack) = 1 /\ Accepting(top.S)
  ELSE LET tok == s[i] IN
    IF tok.k = "c"
    THEN Len(stack) > 1 /\ Accepting(top.S) /\ Accept(s, i + 1, Front(stack))
    ELSE IF ~(AllowsMarks(top.t, tok.m) /\ MarkNamesOK(tok.m) /\ CanonicalMarks(tok.m)) THEN FALSE
    ELSE IF tok.k = "x"
    THEN IF i > 1 /\ s[i - 1].k = "x" /\ s[i - 1].m = tok.m
         THEN Accept(s, i + 1, stack)
         ELSE Step1(top.S, "text") # {} /\
              Accept(s, i + 1, [stack EXCEPT ![Len(stack)].S = Step1(top.S, "text")])
    ELSE IF ~KindOK(tok) THEN FALSE
    ELSE IF tok.k = "l"
    THEN Step1(top.S, tok.t) # {} /\ Accept(s, i + 1, [stack EXCEPT ![Len(stack)].S = Step1(top.S, tok.t)])
    ELSE Step1(top.S, tok.t) # {} /\
         Accept(s, i + 1, Append([stack EXCEPT ![Len(stack)].S = Step1(top.S, tok.t)],
                                 [t |-> tok.t, S |-> {ContentOf(tok.t)}]))
GrammarAccepts(s) == Accept(s, 1, << [t |-> TopType, S |-> {ContentOf(TopType)}] >>)

TwoFormulationsAgree == Valid(d) <=> GrammarAccepts(d)
=============================================================================
