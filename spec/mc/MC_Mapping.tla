----------------------------- MODULE MC_Mapping -----------------------------
(***************************************************************************)
(* C08, mappings.  A mapping is built by a history of the public           *)
(* operations (append_map with and without mirror, append_mapping,         *)
(* append_mapping_inverted, slice, invert).  The state is the history; the *)
(* mapping it denotes is computed by the specification's operators.        *)
(* Invariants: the algebra (composition, slicing, inversion, mirrors).     *)
(* Emit prints every history with the mapping it denotes and the answers   *)
(* to every position query, for replay into the library (pipeline G).      *)
(***************************************************************************)
EXTENDS PMMap, Json, IOUtils

MaxOps == atoi(IOEnv.PMV_MAXOPS)
Shard == atoi(IOEnv.PMV_SHARD)
NShards == atoi(IOEnv.PMV_NSHARDS)

(* a small pool of single maps: deletion, insertion, replacement, two ranges *)
Pool == << [ranges |-> << <<1, 2, 0>> >>, inv |-> FALSE],
           [ranges |-> << <<2, 0, 2>> >>, inv |-> FALSE],
           [ranges |-> << <<0, 1, 2>> >>, inv |-> FALSE],
           [ranges |-> << <<1, 1, 0>>, <<3, 0, 1>> >>, inv |-> FALSE],
           [ranges |-> << <<0, 2, 1>> >>, inv |-> TRUE],
           [ranges |-> << <<2, 1, 1>>, <<4, 1, 0>> >>, inv |-> FALSE] >>
(* a pool of argument mappings for append_mapping / append_mapping_inverted *)
Others == << [maps |-> <<Pool[1]>>, mirror |-> <<>>, from |-> 0, to |-> 1],
             [maps |-> <<Pool[2], Pool[1]>>, mirror |-> <<>>, from |-> 0, to |-> 2],
             [maps |-> <<Pool[1], InvertMap(Pool[1])>>, mirror |-> << <<0, 1>> >>, from |-> 0, to |-> 2],
             [maps |-> <<Pool[3], Pool[4], InvertMap(Pool[3])>>, mirror |-> << <<0, 2>> >>, from |-> 0, to |-> 3] >>

VARIABLE hist
vars == <<hist>>

Op(k, a, b) == [op |-> k, a |-> a, b |-> b]
ApplyOp(mp, o) ==
  CASE o.op = "append_map"    -> MAppendMap(mp, Pool[o.a], -1)
    [] o.op = "append_mirror" -> MAppendMap(mp, InvertMap(mp.maps[o.a + 1]), o.a)
    [] o.op = "append_mapping" -> MAppendMapping(mp, Others[o.a])
    [] o.op = "append_mapping_inverted" -> MAppendMappingInverted(mp, Others[o.a])
    [] o.op = "slice"  -> MSlice(mp, o.a, o.b)
    [] o.op = "invert" -> MInvert(mp)
RECURSIVE Eval(_, _)
Eval(h, mp) == IF h = <<>> THEN mp ELSE Eval(Tail(h), ApplyOp(mp, Head(h)))
Cur == Eval(hist, EmptyMapping)

Init == hist = <<>>
Sliced == \E i \in 1..Len(hist) : hist[i].op = "slice"
Next ==
  /\ Len(hist) < MaxOps
  /\ ~Sliced   \* slice is a view: it ends a history (appending to a view is not a documented use)
  /\ LET mp == Cur
         n == Len(mp.maps) IN
     \/ \E i \in 1..Len(Pool) :
          /\ (hist = <<>> => i % NShards = Shard)
          /\ hist' = Append(hist, Op("append_map", i, 0))
     \/ \E j \in 0..(n - 1) : GetMirror(mp, j) = -1 /\ hist # <<>>
          /\ hist' = Append(hist, Op("append_mirror", j, 0))
     \/ \E i \in 1..Len(Others) : hist # <<>> /\ hist' = Append(hist, Op("append_mapping", i, 0))
     \/ \E i \in 1..Len(Others) : hist # <<>> /\ hist' = Append(hist, Op("append_mapping_inverted", i, 0))
     \/ \E f \in 0..n : \E t \in f..n : hist # <<>> /\ hist' = Append(hist, Op("slice", f, t))
     \/ hist # <<>> /\ hist[Len(hist)].op # "invert" /\ hist' = Append(hist, Op("invert", 0, 0))
Spec == Init /\ [][Next]_vars

Positions == 0..8
Assocs == {-1, 1}
NoMirrors(mp) == [mp EXCEPT !.mirror = <<>>]

(* a mapping without mirror entries is the left-to-right composition of its maps *)
ComposeLaw == LET mp == NoMirrors(Cur) IN
  \A p \in Positions : \A a \in Assocs :
    MappingPos(mp, p, a) = Compose(mp.maps, mp.from, mp.to, p, a)
(* mapping through a slice [f,k) and then [k,t) equals mapping through [f,t), mirrors aside *)
SliceLaw == LET mp == NoMirrors(Cur) IN
  \A f \in 0..Len(mp.maps) : \A k \in f..Len(mp.maps) : \A t \in k..Len(mp.maps) :
    \A p \in Positions : \A a \in Assocs :
      MappingPos(MSlice(mp, k, t), MappingPos(MSlice(mp, f, k), p, a), a) = MappingPos(MSlice(mp, f, t), p, a)
(* inversion reverses and inverts the maps and relocates the mirror pairs *)
InvertLaw == LET mp == Cur
                 iv == MInvert(mp)
                 n == Len(mp.maps) IN
  /\ Len(iv.maps) = n
  /\ \A i \in 1..n : iv.maps[i] = InvertMap(mp.maps[n + 1 - i])
  /\ \A i, j \in 0..(n - 1) : (i < j /\ GetMirror(mp, i) = j) => GetMirror(iv, n - 1 - j) = n - 1 - i
(* appending preserves the maps already there and their mirrors *)
AppendLaw == \A i \in 1..Len(Others) : LET mp == Cur
                                           ap == MAppendMapping(mp, Others[i])
                                           n == Len(mp.maps) IN
  /\ SubSeq(ap.maps, 1, n) = mp.maps
  /\ SubSeq(ap.maps, n + 1, Len(ap.maps)) = Others[i].maps
  /\ \A a, b \in 0..(Len(Others[i].maps) - 1) :
        GetMirror(Others[i], a) = b => GetMirror(ap, n + a) = n + b
(* the mirror law: when map j is the inverse of map i, registered as its mirror,
   and nothing is mapped in between that touches the deleted content, going
   through i..j returns every position to where it started *)
Adjacent(mm) == \E i \in 1..(Len(mm.ranges) - 1) : mm.ranges[i][1] + mm.ranges[i][2] >= mm.ranges[i + 1][1]
MirrorLaw == LET mp == Cur IN
  \A i \in 0..(Len(mp.maps) - 1) :
    LET j == GetMirror(mp, i) IN
    (j = i + 1 /\ mp.maps[j + 1] = InvertMap(mp.maps[i + 1]) /\ ~Adjacent(mp.maps[i + 1])) =>
      \A p \in Positions : \A a \in Assocs : MappingPos(MSlice(mp, i, j + 1), p, a) = p
(* nested mirrors: [m, n, inv n, inv m] with (0,3) and (1,2) mirrored is the identity *)
NestedMirrorLaw == LET mp == Cur IN
  (Len(mp.maps) = 4 /\ GetMirror(mp, 0) = 3 /\ GetMirror(mp, 1) = 2
     /\ mp.maps[4] = InvertMap(mp.maps[1]) /\ mp.maps[3] = InvertMap(mp.maps[2])
     /\ ~Adjacent(mp.maps[1]) /\ ~Adjacent(mp.maps[2])) =>
    \A p \in Positions : \A a \in Assocs : MappingPos(MSlice(mp, 0, 4), p, a) = p

Ev == LET mp == Cur IN
  [hist |-> hist, pool |-> Pool, others |-> Others, maps |-> mp.maps, mirror |-> mp.mirror, from |-> mp.from, to |-> mp.to,
   q |-> [p \in Positions |-> <<MappingRes(mp, p, -1), MappingRes(mp, p, 1)>>]]
Emit == hist = <<>> \/ PrintT(ToJson(Ev))
=============================================================================
