----------------------------- MODULE MC_MarkOps -----------------------------
(***************************************************************************)
(* C13 on the specification: laws of the range mark operations over every   *)
(* small valid document (PMDocGrammar), every range and every mark of the   *)
(* universe, under the mark configuration (exclusion relation, allowed      *)
(* marks) of the schema in Input.                                           *)
(***************************************************************************)
EXTENDS PMOps, PMDocGrammar

Spec == GInit /\ [][GNext]_gvars
d == toks
Rng == {<<f, t>> \in (0..Len(d)) \X (0..Len(d)) : f <= t}
MarkU == Range(Gen.marku)

AddCarries == Complete => \A r \in Rng : \A m \in MarkU :
  LET out == AddMarkOp(d, r[1], r[2], m) IN
  /\ Len(out) = Len(d) /\ Skel(out) = Skel(d)
  /\ \A i \in 1..Len(d) :
       IF r[1] < i /\ i <= r[2] /\ MarkableTok(d, i, m.t)
       THEN IsInSet(m, out[i].m) \/ Blocked(m, d[i].m)
       ELSE out[i].m = d[i].m
  /\ \A i \in 1..Len(d) : (r[1] < i /\ i <= r[2] /\ MarkableTok(d, i, m.t) /\ IsInSet(m, out[i].m)) =>
        \A j \in 1..Len(out[i].m) : out[i].m[j] = m \/ ~Excl(m.t, out[i].m[j].t)
  /\ Valid(out) /\ Canon(out)
RemoveClears == Complete => \A r \in Rng : \A m \in MarkU :
  LET o1 == RemoveMarkOp(d, r[1], r[2], [kind |-> "mark", mark |-> m, type |-> m.t])
      o2 == RemoveMarkOp(d, r[1], r[2], [kind |-> "type", mark |-> m, type |-> m.t])
      o3 == RemoveMarkOp(d, r[1], r[2], [kind |-> "all", mark |-> m, type |-> m.t]) IN
  /\ \A i \in 1..Len(d) : (r[1] < i /\ i <= r[2] /\ IsInlineTok(d[i])) =>
        ~IsInSet(m, o1[i].m) /\ ~TypeInSet(m.t, o2[i].m) /\ o3[i].m = <<>>
  /\ \A i \in 1..Len(d) : ~(r[1] < i /\ i <= r[2]) => Unflag(<<o1[i]>>) = Unflag(<<d[i]>>) /\ Unflag(<<o2[i]>>) = Unflag(<<d[i]>>)
  /\ Skel(o1) = Skel(d) /\ Skel(o3) = Skel(d)
  /\ Valid(o1) /\ Valid(o2) /\ Valid(o3)
RoundTrip == Complete => \A r \in Rng : \A m \in MarkU :
  (\A i \in 1..Len(d) : (r[1] < i /\ i <= r[2] /\ d[i].k # "c") =>
       ~IsInSet(m, d[i].m) /\ ~Blocked(m, d[i].m) /\ \A j \in 1..Len(d[i].m) : ~Excl(m.t, d[i].m[j].t))
  => RemoveMarkOp(AddMarkOp(d, r[1], r[2], m), r[1], r[2], [kind |-> "mark", mark |-> m, type |-> m.t]) = d
=============================================================================
