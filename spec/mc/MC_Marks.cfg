SPECIFICATION Spec
CHECK_DEADLOCK FALSE
INVARIANT Canonical
INVARIANT NoExclusionInside
INVARIANT AddLaw
INVARIANT RemoveLaw
INVARIANT AllowedLaw
INVARIANT SetFromLaw
