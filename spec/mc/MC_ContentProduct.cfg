SPECIFICATION Spec
VIEW View
CHECK_DEADLOCK FALSE
INVARIANT RejectsMalformed
INVARIANT AcceptsWellFormed
INVARIANT AliveAgree
INVARIANT EndAgree
INVARIANT Deterministic
INVARIANT InlineAgree
INVARIANT ParsersAgree
