SPECIFICATION Spec
CHECK_DEADLOCK FALSE
INVARIANT ComposeLaw
INVARIANT SliceLaw
INVARIANT InvertLaw
INVARIANT AppendLaw
INVARIANT MirrorLaw
INVARIANT NestedMirrorLaw
