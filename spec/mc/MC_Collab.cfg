SPECIFICATION Spec
VIEW View
CHECK_DEADLOCK FALSE
INVARIANT AuthReplays
INVARIANT ConfirmedAgree
INVARIANT AllValid
INVARIANT Converged
INVARIANT ReceiveNeverStuck
INVARIANT AuthorityAccepts
