------------------------------ MODULE MC_Marks ------------------------------
(***************************************************************************)
(* C14.  The mark-set state machine over one mark configuration (the       *)
(* schema of Input): every set reachable by additions and removals.        *)
(* Invariants state the property's wording declaratively and check the     *)
(* operational AddToSet / AllowedMarks against it; Emit prints every       *)
(* reachable set with the specification's answer to every query, for       *)
(* replay into Mark / MarkType / NodeType (one implementation test per     *)
(* transition of the state graph).                                         *)
(***************************************************************************)
EXTENDS PMMarks

(* universe of marks: Input.gen.universe, a sequence of [t, a] *)
UniverseSeq == Input.gen.universe
Universe == Range(UniverseSeq)
MaxLen == Input.gen.maxSet

VARIABLE set
Init == set = <<>>
Add(m) == set' = AddToSet(m, set) /\ Len(set') <= MaxLen
Remove(m) == set' = RemoveFromSet(m, set)
RemoveType(t) == set' = RemoveTypeFromSet(t, set)
Next == (\E m \in Universe : Add(m) \/ Remove(m)) \/ (\E t \in MarkNames : RemoveType(t))
Spec == Init /\ [][Next]_set

Members(s) == Range(s)
(* canonical form *)
Canonical == CanonicalMarks(set) /\ Sorted(set) /\ NoDup(set)
NoExclusionInside == \A i, j \in 1..Len(set) : i # j => ~Excl(set[i].t, set[j].t)
(* adding, as the property states it *)
AddLaw == \A m \in Universe :
  LET r == AddToSet(m, set)
      blocked == \E o \in Members(set) : ~Excl(m.t, o.t) /\ Excl(o.t, m.t) IN
  IF m \in Members(set) \/ blocked THEN r = set
  ELSE /\ Members(r) = {m} \cup {o \in Members(set) : ~Excl(m.t, o.t)}
       /\ Len(r) = Cardinality(Members(r))
       /\ Sorted(r)
       \* kept marks keep their relative order
       /\ SelectSeq(r, LAMBDA x : x # m) = SelectSeq(set, LAMBDA o : ~Excl(m.t, o.t))
       \* the new mark sits at its rank position: after every kept mark of lower or equal rank
       /\ \A i, j \in 1..Len(r) : (r[i] = m /\ j < i) => Rank(r[j].t) <= Rank(m.t)
       /\ \A i, j \in 1..Len(r) : (r[i] = m /\ j > i) => Rank(r[j].t) > Rank(m.t)
RemoveLaw == \A m \in Universe :
  /\ Members(RemoveFromSet(m, set)) = Members(set) \ {m}
  /\ IsInSet(m, set) <=> m \in Members(set)
  /\ IsSubseq(RemoveFromSet(m, set), set)
AllowedLaw == \A n \in NodeNames :
  LET r == AllowedMarks(n, set) IN
  /\ Members(r) = {o \in Members(set) : AllowsMarkType(n, o.t)}
  /\ IsSubseq(r, set)
  /\ AllowsMarks(n, set) <=> r = set
(* set_from of any permutation of a canonical set gives the set back *)
Perms(s) == {p \in [1..Len(s) -> 1..Len(s)] : \A i, j \in 1..Len(s) : i # j => p[i] # p[j]}
SetFromLaw == Len(set) <= 3 => \A p \in Perms(set) :
  LET q == [i \in 1..Len(set) |-> set[p[i]]] IN
  Sorted(SetFrom(q)) /\ Members(SetFrom(q)) = Members(set)

Ev == [set |-> set,
       ops |-> [m \in Universe |->
                  [add |-> AddToSet(m, set), remove |-> RemoveFromSet(m, set), isin |-> IsInSet(m, set)]],
       types |-> [t \in MarkNames |->
                  [removetype |-> RemoveTypeFromSet(t, set), typein |-> TypeInSet(t, set),
                   excludes |-> [u \in MarkNames |-> Excl(t, u)]]],
       parents |-> [n \in NodeNames |->
                  [allowed |-> AllowedMarks(n, set), allows |-> AllowsMarks(n, set),
                   allowstype |-> [u \in MarkNames |-> AllowsMarkType(n, u)]]],
       rev |-> SetFrom(Rev(set))]
(* functions over records are printed as sequences of pairs *)
EvJ == [set |-> set,
        ops |-> [i \in 1..Len(UniverseSeq) |->
                   LET m == UniverseSeq[i] IN
                   [m |-> m, add |-> AddToSet(m, set), remove |-> RemoveFromSet(m, set), isin |-> IsInSet(m, set)]],
        types |-> Ev.types, parents |-> Ev.parents, rev |-> Ev.rev]
Emit == PrintT(ToJson(EvJ))
=============================================================================
