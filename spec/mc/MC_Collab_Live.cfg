SPECIFICATION LiveSpec
CHECK_DEADLOCK FALSE
INVARIANT AuthReplays
INVARIANT ConfirmedAgree
INVARIANT AllValid
INVARIANT Converged
INVARIANT ReceiveNeverStuck
INVARIANT AuthorityAccepts
PROPERTY Quiesces
