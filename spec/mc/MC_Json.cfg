SPECIFICATION Spec
CHECK_DEADLOCK FALSE
INVARIANT FlatRoundTrip
INVARIANT KeysOnNodeStarts
INVARIANT SliceShapes
INVARIANT StepKeysDetermineStep
