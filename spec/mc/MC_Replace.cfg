SPECIFICATION Spec
CHECK_DEADLOCK FALSE
INVARIANT ReinsertIsIdentity
INVARIANT CutIsValidSlice
INVARIANT DepthsIffBalanced
INVARIANT SizeLaw
INVARIANT FragmentCutBalanced
INVARIANT ApplyClosed
