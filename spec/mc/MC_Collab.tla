------------------------------- MODULE MC_Collab -------------------------------
(***************************************************************************)
(* The collaborative protocol as a state machine, explored by TLC over      *)
(* every interleaving of local edits, sends and receives of NClients        *)
(* clients from a small start document (bounded: MaxLog authority steps,    *)
(* MaxUnconf unconfirmed steps per client, documents up to MaxToks tokens). *)
(* Safety: the confirmed part of every client equals the authority's        *)
(* document at the client's version; every document is valid; a client that *)
(* is up to date with nothing unconfirmed has the authority's document      *)
(* (convergence); a rebase never gets stuck.  `hist` records the schedule   *)
(* for replay into the library (hidden from the state by the VIEW).         *)
(***************************************************************************)
EXTENDS PMCollab, Json, IOUtils

Base == Snap(Input.base, <<>>)
NClients == Input.nclients
MaxLog == Input.maxLog
MaxUnconf == Input.maxUnconf
MaxToks == Input.maxToks
Clients == 1..NClients
Chars == Range(Input.chars)
MarkU == Range(Input.marks)
Rich == Input.rich
(* liveness configuration: no schedule recording (hist stays empty, so no VIEW is needed) and edits are
   bounded by the room left in the authority's log, so that everything edited can still be sent *)
Live == "live" \in DOMAIN Input /\ Input.live

VARIABLES S, hist
vars == <<S, hist>>
View == S

TextSlice(c, ms) == [toks |-> <<TextTok(c, ms, TRUE)>>, os |-> 0, oe |-> 0]
InnerOpen(d, p) == d[StackAt(d, p)[Len(StackAt(d, p))]]
(* a small universe of edits on document d: typing, deleting one token, marking (only where the
   mark is absent - what Transform.add_mark emits), splitting a textblock *)
StepU(d) ==
  LET P == 0..Len(d) IN
  {[type |-> "replace", from |-> p, to |-> p, slice |-> TextSlice(c, <<>>), structure |-> FALSE] : p \in P, c \in Chars}
  \cup {[type |-> "replace", from |-> p, to |-> p + 1, slice |-> EmptySlice, structure |-> FALSE] : p \in {x \in P : x < Len(d)}}
  \cup (IF ~Rich THEN {} ELSE
    UNION {{[type |-> "addMark", from |-> p, to |-> q, mark |-> m] :
              q \in {x \in P : x > p /\ x <= p + 2 /\ \A i \in (p + 1)..x : d[i].k = "x" /\ ~IsInSet(m, d[i].m)}} : p \in P, m \in MarkU}
    \cup {[type |-> "replace", from |-> p, to |-> p,
           slice |-> [toks |-> <<InnerOpen(d, p), CloseTok, InnerOpen(d, p), CloseTok>>, os |-> 1, oe |-> 1],
           structure |-> TRUE] : p \in {x \in P : Depth(d, x) = 1}})

Init == S = InitState(Base, Clients) /\ hist = <<>>
RECURSIVE SumUnconf(_)
SumUnconf(cs) == IF cs = {} THEN 0 ELSE LET c == CHOOSE x \in cs : TRUE IN Len(S.cl[c].unconf) + SumUnconf(cs \ {c})
Rec(h) == IF Live THEN <<>> ELSE h
Edit(c, s) ==
  /\ Len(S.cl[c].unconf) < MaxUnconf
  /\ Live => Len(S.auth.steps) + SumUnconf(Clients) < MaxLog
  /\ LET r == EditRes(S, c, s) IN
     /\ r.ok /\ Len(r.S.cl[c].doc.d) <= MaxToks /\ r.S.cl[c].doc # S.cl[c].doc
     /\ S' = r.S
  /\ hist' = Rec(Append(hist, [a |-> "edit", c |-> c, step |-> s]))
Send(c) ==
  /\ CanSend(S, c)
  /\ Len(S.auth.steps) + Len(S.cl[c].unconf) <= MaxLog
  /\ S' = SendRes(S, c).S
  /\ hist' = Rec(Append(hist, [a |-> "send", c |-> c, step |-> NoStep]))
Receive(c) ==
  /\ CanReceive(S, c)
  /\ S' = ReceiveRes(S, c).S
  /\ hist' = Rec(Append(hist, [a |-> "receive", c |-> c, step |-> NoStep]))
Next == \E c \in Clients : (\E s \in StepU(S.cl[c].doc.d) : Edit(c, s)) \/ Send(c) \/ Receive(c)
Spec == Init /\ [][Next]_vars

(* liveness: with weak fairness on sending and receiving, once editing has stopped (it is bounded) every
   client ends up to date with nothing unconfirmed - and then, by Converged, with the authority's document *)
Fair == \A c \in Clients : WF_vars(Send(c)) /\ WF_vars(Receive(c))
LiveSpec == Spec /\ Fair
Quiet == \A c \in Clients : S.cl[c].unconf = <<>> /\ S.cl[c].version = Len(S.auth.steps)
Quiesces == <>[]Quiet

AuthReplays == AuthReplaysOf(S, Base)
ConfirmedAgree == ConfirmedAgreeOf(S, Base)
AllValid == AllValidOf(S)
Converged == ConvergedOf(S)
ReceiveNeverStuck == NeverStuckOf(S)
AuthorityAccepts == \A c \in Clients : CanSend(S, c) => SendRes(S, c).ok

Ev == [hist |-> hist, docs |-> [c \in Clients |-> S.cl[c].doc.d], unconf |-> [c \in Clients |-> Len(S.cl[c].unconf)],
       versions |-> [c \in Clients |-> S.cl[c].version], auth |-> S.auth.doc.d]
Emit == hist = <<>> \/ PrintT(ToJson(Ev))
=============================================================================
