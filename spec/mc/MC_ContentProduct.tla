-------------------------- MODULE MC_ContentProduct --------------------------
(***************************************************************************)
(* C06 / pipeline E.  For every expression k of the batch (Input.exprs) the *)
(* library's compiled matcher has been dumped through its public API        *)
(* (edge_count / edge / valid_end) as a table of states.  TLC explores the  *)
(* product of that automaton with the derivative automaton the              *)
(* specification computes from the expression:                              *)
(*    q : state of the library's automaton (0 = no match state)             *)
(*    S : residual set of the specification ({} = dead)                     *)
(* The reachable product is finite, so the invariants decide, for child     *)
(* sequences of any length, that (a) a match state stays alive exactly when *)
(* the prefix can still be extended, and (b) a state is a valid end exactly *)
(* when the sequence read so far matches the expression.  For expressions   *)
(* the library refused (or that the recogniser PMExprSyntax refuses) the     *)
(* state checks the rejection rules instead.                                *)
(***************************************************************************)
EXTENDS PMExprSyntax

Exprs == Input.exprs
Alphabet == Range(Input.alphabet)

VARIABLES k, q, S, w
vars == <<k, q, S, w>>
(* w: the word read so far (diagnostic only; bounded by the product being finite
   because it is excluded from the VIEW) *)
View == <<k, q, S>>

Built(i) == Exprs[i].built
(* the expression is read by the specification's own recogniser (PMExprSyntax) from the characters
   of the string the schema declares; evaluated once per expression *)
ParseTab == [i \in 1..Len(Exprs) |-> Parse(Exprs[i].chars)]
Parsed(i) == ParseTab[i].ok
Ast(i) == ParseTab[i].e
Auto(i) == Exprs[i].auto
EdgeTo(i, st, a) ==
  LET es == Auto(i)[st].edges
      hit == {j \in 1..Len(es) : es[j].t = a} IN
  IF hit = {} THEN 0 ELSE es[CHOOSE j \in hit : \A j2 \in hit : j <= j2].to

Init == /\ k \in 1..Len(Exprs)
        /\ q = IF Built(k) THEN 1 ELSE 0
        /\ S = IF Parsed(k) THEN {Ast(k)} ELSE {}
        /\ w = <<>>
Next == /\ Built(k) /\ Parsed(k)
        /\ (q # 0 \/ S # {})
        /\ \E a \in Alphabet :
             /\ q' = IF q = 0 THEN 0 ELSE EdgeTo(k, q, a)
             /\ S' = Step1(S, a)
             /\ w' = Append(w, a)
             /\ k' = k
Spec == Init /\ [][Next]_vars

WellFormed(i) == Parsed(i) /\ ExprOK(Ast(i))
(* rejection: malformed expressions are refused at schema construction; well-formed ones are not *)
RejectsMalformed == (w = <<>> /\ ~WellFormed(k)) => ~Built(k)
AcceptsWellFormed == (w = <<>> /\ WellFormed(k)) => Built(k)
(* equivalence, for the expressions that were compiled *)
AliveAgree == (Built(k) /\ WellFormed(k)) => ((q = 0) <=> (S = {}))
EndAgree == (Built(k) /\ WellFormed(k) /\ q # 0) => (Auto(k)[q].ve <=> Accepting(S))
(* the dumped automaton is deterministic: no state has two edges on one type *)
Deterministic == (Built(k) /\ q # 0) =>
  \A i, j \in 1..Len(Auto(k)[q].edges) : i # j => Auto(k)[q].edges[i].t # Auto(k)[q].edges[j].t
(* inline_content / leaf-ness as the library reports them agree with the expression *)
InlineAgree == (w = <<>> /\ Built(k) /\ WellFormed(k)) =>
  (Exprs[k].inline <=> \E a \in First(Ast(k)) : IsInlineType(a))
(* machinery self-check: the harness' independent parser (used to print expressions and to filter the
   batch) reads every string the same way as the specification's recogniser *)
ParsersAgree == w = <<>> => (Exprs[k].parsed = Parsed(k) /\ (Parsed(k) => Exprs[k].ast = Ast(k)))
=============================================================================

