------------------------------ MODULE MC_Resolve ------------------------------
(***************************************************************************)
(* C09 on the specification: consistency theorems relating the resolved-    *)
(* position operators to each other and to the flat token picture, over     *)
(* every small valid document (PMDocGrammar) and every position / pair.     *)
(***************************************************************************)
EXTENDS PMResolve, PMDocGrammar
INSTANCE PMReplace

Spec == GInit /\ [][GNext]_gvars
Pos == 0..Len(toks)
d == toks

Bounds == Complete => \A p \in Pos : LET c == Ctx(d, p) IN
  /\ c.depth = Depth(d, p)
  /\ \A k \in 0..c.depth : RStart(d, c, k) <= p /\ p <= REnd(d, c, k)
  /\ \A k \in 1..c.depth : RBefore(d, c, k) + 1 = RStart(d, c, k) /\ RAfter(d, c, k) = REnd(d, c, k) + 1
  /\ RParentOffset(d, c, p) >= 0
NodeAtBefore == Complete => \A p \in Pos : LET c == Ctx(d, p) IN
  \A k \in 1..c.depth :
    NodeAt(d, RBefore(d, c, k)) = [none |-> FALSE, toks |-> Canonize(SubSeq(d, c.anc[k], c.M[c.anc[k]]))]
IndexConsistent == Complete => \A p \in Pos : LET c == Ctx(d, p) IN
  /\ \A k \in 0..(c.depth - 1) : RKids(d, c, k)[RIndex(d, c, k, p) + 1].s = c.anc[k + 1]
  /\ RIndex(d, c, c.depth, p) <= Len(RKids(d, c, c.depth))
  /\ \A k \in 0..c.depth : RIndexAfter(d, c, k, p) \in {RIndex(d, c, k, p), RIndex(d, c, k, p) + 1}
BeforeAfterNodes == Complete => \A p \in Pos : LET c == Ctx(d, p) IN
  \* node before and node after tile the parent's content around p
  /\ (RNodeBefore(d, c, p).none) <=> (p = RStart(d, c, c.depth))
  /\ (RNodeAfter(d, c, p).none) <=> (p = REnd(d, c, c.depth))
WalkVisitsAll == Complete =>
  LET v == NodesBetween(d, 0, Len(d), "") IN
  /\ \A i \in 1..(Len(v) - 1) : v[i].pos < v[i + 1].pos \/ (v[i].pos = v[i + 1].pos /\ FALSE)
  /\ Len(v) = Cardinality({i \in 1..Len(d) : d[i].k \in {"o", "l"} \/ (d[i].k = "x" /\ d[i].b)})
  /\ TextBetween(d, 0, Len(d), <<>>, <<>>) = TextOf(d)
SharedDepthAgrees == Complete => \A p \in Pos : \A q \in Pos :
  p <= q => RSharedDepth(d, Ctx(d, p), q) = SharedDepth(d, p, q)
MarksAtInText == Complete => \A p \in Pos : LET c == Ctx(d, p) IN
  (p > 0 /\ p < Len(d) /\ d[p].k = "x" /\ d[p + 1].k = "x" /\ d[p].m = d[p + 1].m) => MarksAt(d, c, p) = d[p].m
=============================================================================
