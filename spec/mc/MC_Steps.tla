------------------------------ MODULE MC_Steps ------------------------------
(***************************************************************************)
(* The step algebra of the specification over every small valid document   *)
(* (PMDocGrammar) and a step universe derived from the document: every     *)
(* range x every cut of the same document, wrap-like and unwrap-like       *)
(* replace-around steps, mark steps, node-mark and attribute steps.        *)
(* Laws: closure (C01), map faithfulness (C03), exact undo and inverse     *)
(* maps (C04).                                                             *)
(***************************************************************************)
EXTENDS PMStep, PMDocGrammar

Spec == GInit /\ [][GNext]_gvars

N == Len(toks)
Pos == 0..N
Rng == {<<f, t>> \in Pos \X Pos : f <= t}
CutsOf(d) == {Cut(d, r[1], r[2]) : r \in {<<f, t>> \in (0..Len(d)) \X (0..Len(d)) : f <= t}}
MarkU == {ms[1] : ms \in {m \in MarkSets : Len(m) = 1}}
WrapTypes == {n \in NodeNames : ~IsLeafType(n) /\ ~IsTextType(n) /\ n # RootType /\ ~HasReqAttrs(n)}
DefAttrs(n) == [i \in {NT(n).attrs[k].n : k \in 1..Len(NT(n).attrs)} |->
                  (CHOOSE k \in 1..Len(NT(n).attrs) : NT(n).attrs[k].n = i)]
WrapSlice(n) == [toks |-> <<OpenTok(n, <<>>, <<>>), CloseTok>>, os |-> 0, oe |-> 0]

ReplaceSteps == {[type |-> "replace", from |-> r[1], to |-> r[2], slice |-> s, structure |-> FALSE] :
                   r \in Rng, s \in CutsOf(toks)}
              \cup {[type |-> "replace", from |-> r[1], to |-> r[2], slice |-> EmptySlice, structure |-> TRUE] : r \in Rng}
AroundSteps == {[type |-> "replaceAround", from |-> r[1], to |-> r[2], gapFrom |-> r[1], gapTo |-> r[2],
                 insert |-> 1, slice |-> WrapSlice(w), structure |-> TRUE] : r \in Rng, w \in {x \in WrapTypes : NT(x).attrs = <<>>}}
              \cup {[type |-> "replaceAround", from |-> r[1], to |-> r[2], gapFrom |-> r[1] + 1, gapTo |-> r[2] - 1,
                     insert |-> 0, slice |-> EmptySlice, structure |-> TRUE] : r \in {x \in Rng : x[2] - x[1] >= 2}}
MarkSteps == {[type |-> ty, from |-> r[1], to |-> r[2], mark |-> m] :
                 ty \in {"addMark", "removeMark"}, r \in Rng, m \in MarkU}
NodeMarkSteps == {[type |-> ty, pos |-> p, mark |-> m] :
                 ty \in {"addNodeMark", "removeNodeMark"}, p \in Pos, m \in MarkU}
Steps == ReplaceSteps \cup AroundSteps \cup MarkSteps \cup NodeMarkSteps
RA == <<>>

Closed == Complete => \A st \in Steps :
  LET r == Apply(st, toks, RA) IN r.ok => Valid(r.doc) /\ Canon(r.doc)
FaithfulMaps == Complete => \A st \in Steps :
  LET r == Apply(st, toks, RA) IN
  r.ok => Faithful(toks, r.doc, GetMap(st).ranges, st.type \in {"replace", "replaceAround"})
ExactUndo == Complete => \A st \in ReplaceSteps \cup AroundSteps \cup NodeMarkSteps :
  LET r == Apply(st, toks, RA) IN
  r.ok => LET inv == InvertStep(st, toks, RA)
              back == Apply(inv, r.doc, r.ra) IN
          back.ok /\ back.doc = toks
InverseMaps == Complete => \A st \in ReplaceSteps \cup AroundSteps :
  LET r == Apply(st, toks, RA) IN
  r.ok => LET inv == InvertStep(st, toks, RA) IN
          \A p \in 0..Len(r.doc) : \A a \in {-1, 1} :
             MapPos(GetMap(inv), p, a) = MapPos(InvertMap(GetMap(st)), p, a)
(* the structure flag as implemented agrees with "only closes, then opens" except when the range starts
   in the middle of a text node (see PMStep!StructureOnlyImpl) *)
StructureFlagLaw == Complete => \A r \in Rng :
  ~MidText(toks, r[1]) => (StructureOnlyImpl(toks, r[1], r[2]) <=> StructureOnly(toks, r[1], r[2]))
(* the join rule never refuses to put back what was cut, and cutting at a deeper range end joins equal types *)
Reinsert == Complete => \A r \in Rng :
  LET r2 == Apply([type |-> "replace", from |-> r[1], to |-> r[2], slice |-> Cut(toks, r[1], r[2]), structure |-> FALSE], toks, RA)
  IN r2.ok /\ r2.doc = toks
(* non-vacuity: some step of every kind applies somewhere (checked by counting in the harness) *)
=============================================================================
