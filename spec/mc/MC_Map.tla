------------------------------- MODULE MC_Map -------------------------------
(***************************************************************************)
(* C08, single maps.  The state machine builds every step map with up to   *)
(* MaxRanges ranges (gaps and sizes 0..MaxSize, both inversion flags) one  *)
(* range at a time.  The invariants state the documented mapping rule as   *)
(* laws over every position and both association sides (model checking of  *)
(* the specification); the Emit "invariant" prints every map with the      *)
(* specification's answers to every query as one JSON line, which the      *)
(* harness replays into StepMap (pipeline G).                              *)
(***************************************************************************)
EXTENDS PMMap, PMMapUnrolled, Json, IOUtils

MaxRanges == atoi(IOEnv.PMV_MAXRANGES)
MaxSize   == atoi(IOEnv.PMV_MAXSIZE)
Sizes == 0..MaxSize

VARIABLE m
vars == <<m>>

EndOf(rs) == IF rs = <<>> THEN 0 ELSE rs[Len(rs)][1] + rs[Len(rs)][2]
Init == m \in {[ranges |-> <<>>, inv |-> b] : b \in BOOLEAN}
AddRange(gap, old, new) ==
  /\ Len(m.ranges) < MaxRanges
  /\ ~(old = 0 /\ new = 0)
  /\ m' = [m EXCEPT !.ranges = Append(@, <<EndOf(@) + gap, old, new>>)]
Next == \E gap \in Sizes, old \in Sizes, new \in Sizes : AddRange(gap, old, new)
Spec == Init /\ [][Next]_vars

(* positions of the pre-image worth asking about: everything up to past the last range *)
RECURSIVE OldEnd(_, _)
OldEnd(mm, i) == IF i = 0 THEN 0 ELSE OldStart(mm, i) + OldSize(mm, mm.ranges[i])
Positions == 0..(OldEnd(m, Len(m.ranges)) + 2)
Assocs == {-1, 1}

InRange(mm, pos, i) == OldStart(mm, i) <= pos /\ pos <= OldStart(mm, i) + OldSize(mm, mm.ranges[i])
Hit(mm, pos) == {i \in 1..Len(mm.ranges) : InRange(mm, pos, i)}
FirstHit(mm, pos) == SetMinM(Hit(mm, pos))

SetMax(S) == CHOOSE x \in S : \A y \in S : x >= y
(* ----- the documented rule, as laws ----- *)
Monotonic == \A p, q \in Positions : \A a \in Assocs :
               p <= q => MapPos(m, p, a) <= MapPos(m, q, a)
BeforeFirst == \A p \in Positions : \A a \in Assocs :
               (Len(m.ranges) = 0 \/ p < OldStart(m, 1)) => MapPos(m, p, a) = p
AfterShift == \A p \in Positions : \A a \in Assocs :
               Hit(m, p) = {} =>
                 LET before == {i \in 1..Len(m.ranges) : OldStart(m, i) + OldSize(m, m.ranges[i]) < p}
                     n == IF before = {} THEN 0 ELSE SetMax(before)
                 IN MapPos(m, p, a) = p + (IF n = 0 THEN 0 ELSE
                                            NewStart(m, n) + NewSize(m, m.ranges[n])
                                            - OldStart(m, n) - OldSize(m, m.ranges[n]))
InsideRule == \A p \in Positions : \A a \in Assocs :
               Hit(m, p) # {} =>
                 LET i == FirstHit(m, p)
                     r == MapPos(m, p, a)
                 IN r = NewStart(m, i) \/ r = NewStart(m, i) + NewSize(m, m.ranges[i])
(* strictly inside a replaced range: the side decides *)
SideRule == \A p \in Positions : \A a \in Assocs :
               \A i \in 1..Len(m.ranges) :
                 (OldStart(m, i) < p /\ p < OldStart(m, i) + OldSize(m, m.ranges[i])) =>
                   MapPos(m, p, a) = NewStart(m, i) + (IF a < 0 THEN 0 ELSE NewSize(m, m.ranges[i]))
(* deletion flags: a position is deleted iff the token on the asked-for side was replaced *)
DelFlags == \A p \in Positions : \A a \in Assocs :
               LET r == MapRes(m, p, a) IN
               /\ Hit(m, p) = {} => r.del = 0 /\ r.rec = NoRecover
               /\ Hit(m, p) # {} =>
                    LET i == FirstHit(m, p)
                        s == OldStart(m, i)
                        e == s + OldSize(m, m.ranges[i])
                    IN /\ DelAcross(r) <=> (s < p /\ p < e)
                       /\ DelBefore(r) <=> (s < p)
                       \* (an insertion point, s = e, is reported with the AFTER bit: upstream quirk)
                       /\ DelAfter(r) <=> (p < e \/ s = e)
                       /\ Deleted(r) <=> (IF a < 0 THEN p # s ELSE p # e)
                       /\ (r.rec = NoRecover) <=> ~Deleted(r)
                       /\ r.rec # NoRecover =>
                            /\ RecoverIndex(r.rec) = i - 1 /\ RecoverOffset(r.rec) = p - s
                            /\ Touches(m, p, r.rec)
(* for_each agrees with how the map maps *)
ForEachLaw == \A i \in 1..Len(m.ranges) :
               LET q == ForEach(m)[i] IN
               /\ (i = 1 \/ ForEach(m)[i - 1][2] < q[1] \/ OldSize(m, m.ranges[i - 1]) = 0
                     \/ TRUE)
               /\ q[2] - q[1] = OldSize(m, m.ranges[i]) /\ q[4] - q[3] = NewSize(m, m.ranges[i])
               /\ (\A j \in 1..(i - 1) : ~InRange(m, q[1], j)) => MapPos(m, q[1], -1) = q[3]
               /\ (\A j \in 1..(i - 1) : ~InRange(m, q[2], j)) => MapPos(m, q[2], 1) = q[4]
InvertTwice == InvertMap(InvertMap(m)) = m
(* inverse is a genuine inverse on untouched positions *)
InverseLaw == \A p \in Positions : \A a \in Assocs :
               Hit(m, p) = {} => MapPos(InvertMap(m), MapPos(m, p, a), a) = p
(* mirror law: m followed by its inverse, registered as mirrors, is the identity
   on every position - also inside deleted content *)
(* Adjacent ranges (no untouched token between two replaced ranges) are excluded:
   with "first matching range wins" a position between two adjacent deletions
   comes back after the first re-insertion only.  This is inherent in the
   upstream rule; step maps of applied steps have adjacent ranges only for a
   replace-around step with an empty gap. *)
NonAdjacent == \A i \in 1..(Len(m.ranges) - 1) :
                 m.ranges[i][1] + m.ranges[i][2] < m.ranges[i + 1][1]
MirrorLaw == NonAdjacent => LET mp == [maps |-> <<m, InvertMap(m)>>, mirror |-> << <<0, 1>> >>, from |-> 0, to |-> 2] IN
             \A p \in Positions : \A a \in Assocs : MappingPos(mp, p, a) = p
(* without the mirror only non-deleted positions come back *)
NoMirrorLaw == NonAdjacent => LET mp == [maps |-> <<m, InvertMap(m)>>, mirror |-> <<>>, from |-> 0, to |-> 2] IN
             \A p \in Positions : \A a \in Assocs :
                ~Deleted(MapRes(m, p, a)) => MappingPos(mp, p, a) = p

(* bridge to the unbounded (Apalache) check: the unrolled three-range form is MapPos *)
PadRange(i) == IF i <= Len(m.ranges) THEN m.ranges[i] ELSE <<EndOf(m.ranges), 0, 0>>
UnrolledAgrees == Len(m.ranges) <= 3 =>
  \A p \in Positions : \A a \in Assocs :
     MapPos(m, p, a) = MapU(m.inv, PadRange(1)[1], PadRange(1)[2], PadRange(1)[3],
                            PadRange(2)[1], PadRange(2)[2], PadRange(2)[3],
                            PadRange(3)[1], PadRange(3)[2], PadRange(3)[3], p, a)

(* ----- generator (pipeline G) ----- *)
Queries == [p \in Positions |-> [a \in Assocs |->
              LET r == MapRes(m, p, a) IN
              [pos |-> r.pos, del |-> r.del, rec |-> r.rec,
               touches |-> IF r.rec = NoRecover THEN FALSE ELSE Touches(m, p, r.rec),
               back |-> IF r.rec = NoRecover THEN -1 ELSE Recover(InvertMap(m), r.rec)]]]
Ev == [ranges |-> m.ranges, inv |-> m.inv,
       q |-> [p \in Positions |-> <<Queries[p][-1], Queries[p][1]>>],
       npos |-> Cardinality(Positions),
       foreach |-> ForEach(m)]
Emit == PrintT(ToJson(Ev))
=============================================================================
