------------------------------- MODULE MC_Json -------------------------------
(***************************************************************************)
(* C05 on the specification: the wire structure determines the document     *)
(* (Unflat . JsonFlat = identity), carries a key set on exactly the tokens   *)
(* that start a node, and slices / steps keep what decoding needs.           *)
(***************************************************************************)
EXTENDS PMJson, PMDocGrammar
Spec == GInit /\ [][GNext]_gvars
d == toks
FlatRoundTrip == Complete => Unflat(JsonFlat(d)) = Unflag(d)
KeysOnNodeStarts == Complete => \A i \in 1..Len(d) :
  (JsonFlat(d)[i].keys # <<>>) <=> (d[i].k \in {"o", "l"} \/ (d[i].k = "x" /\ d[i].b))
SliceShapes == Complete => \A f \in 0..Len(d) : \A t \in f..Len(d) :
  LET s == Cut(d, f, t)
      sh == SliceJsonShape(s) IN
  /\ sh.null <=> (f = t)
  /\ ~sh.null => (sh.os = s.os /\ sh.oe = s.oe)
StepKeysDetermineStep == Complete => \A f \in 0..Len(d) : \A t \in f..Len(d) :
  LET st == [type |-> "replace", from |-> f, to |-> t, slice |-> Cut(d, f, t), structure |-> FALSE] IN
  /\ WireNormal(st) = st
  /\ ("slice" \in Range(StepKeys(st))) <=> (f # t)
=============================================================================
