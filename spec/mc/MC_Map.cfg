SPECIFICATION Spec
CHECK_DEADLOCK FALSE
INVARIANT Monotonic
INVARIANT BeforeFirst
INVARIANT AfterShift
INVARIANT InsideRule
INVARIANT SideRule
INVARIANT DelFlags
INVARIANT ForEachLaw
INVARIANT InvertTwice
INVARIANT InverseLaw
INVARIANT MirrorLaw
INVARIANT NoMirrorLaw
INVARIANT UnrolledAgrees
