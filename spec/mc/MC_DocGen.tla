------------------------------ MODULE MC_DocGen ------------------------------
(***************************************************************************)
(* Enumerates every schema-valid document within the shape bounds of       *)
(* Input.gen.  Invariants: every complete state is Valid by the            *)
(* declarative definition (PMSchema) - the two formulations of validity    *)
(* agree on everything the grammar builds - and canonical.  Emit prints    *)
(* every complete document as one JSON line (pipeline G).                  *)
(***************************************************************************)
EXTENDS PMDocGrammar

Spec == GInit /\ [][GNext]_gvars
CompleteIsValid == Complete => ValidUnder(RootType, toks)
CompleteIsCanon == Complete => Canon(toks)
PrefixBalanced == \A i \in 1..Len(DepthArr(toks)) : DepthArr(toks)[i] >= 0
Emit == Complete => PrintT(ToJson([toks |-> toks]))
=============================================================================
