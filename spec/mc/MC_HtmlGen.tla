------------------------------ MODULE MC_HtmlGen ------------------------------
(***************************************************************************)
(* Enumerates every well-nested HTML fragment with up to MaxNodes elements   *)
(* and text nodes over the vocabulary of Input.html (tags with their         *)
(* attribute variants, void tags, texts).  Each complete fragment is printed *)
(* as JSON (pipeline G for C19).                                            *)
(***************************************************************************)
EXTENDS Integers, Sequences, FiniteSets, TLC, Json, IOUtils
Input == JsonDeserialize(IOEnv.PMV_INPUT)
H == Input.html
Range(s) == {s[i] : i \in 1..Len(s)}
OpenTags == Range(H.tags)         \* [tag, attrs] records
VoidTags == Range(H.voids)
Texts == Range(H.texts)           \* strings
MaxNodes == H.maxNodes
MaxDepth == H.maxDepth

VARIABLES toks, stack, n
vars == <<toks, stack, n>>
Init == toks = <<>> /\ stack = <<>> /\ n = 0
Open(t) == /\ n < MaxNodes /\ Len(stack) < MaxDepth
           /\ toks' = Append(toks, [k |-> "o", tag |-> t.tag, attrs |-> t.attrs, text |-> ""])
           /\ stack' = Append(stack, t.tag) /\ n' = n + 1
Void(t) == /\ n < MaxNodes
           /\ toks' = Append(toks, [k |-> "v", tag |-> t.tag, attrs |-> t.attrs, text |-> ""])
           /\ UNCHANGED stack /\ n' = n + 1
Text(s) == /\ n < MaxNodes
           /\ (IF toks = <<>> THEN TRUE ELSE toks[Len(toks)].k # "t")
           /\ toks' = Append(toks, [k |-> "t", tag |-> "", attrs |-> <<>>, text |-> s])
           /\ UNCHANGED stack /\ n' = n + 1
Close == /\ stack # <<>>
         /\ toks' = Append(toks, [k |-> "c", tag |-> stack[Len(stack)], attrs |-> <<>>, text |-> ""])
         /\ stack' = SubSeq(stack, 1, Len(stack) - 1) /\ UNCHANGED n
Next == (\E t \in OpenTags : Open(t)) \/ (\E t \in VoidTags : Void(t)) \/ (\E s \in Texts : Text(s)) \/ Close
Spec == Init /\ [][Next]_vars
Complete == stack = <<>> /\ toks # <<>>
Emit == Complete => PrintT(ToJson([toks |-> toks]))
WellNested == Len(stack) <= MaxDepth /\ n <= MaxNodes
=============================================================================
