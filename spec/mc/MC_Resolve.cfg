SPECIFICATION Spec
CHECK_DEADLOCK FALSE
INVARIANT Bounds
INVARIANT NodeAtBefore
INVARIANT IndexConsistent
INVARIANT BeforeAfterNodes
INVARIANT WalkVisitsAll
INVARIANT SharedDepthAgrees
INVARIANT MarksAtInText
