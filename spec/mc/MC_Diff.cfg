SPECIFICATION Spec
CHECK_DEADLOCK FALSE
INVARIANT NoneIffEqual
INVARIANT Symmetric
INVARIANT StartExact
INVARIANT EndExact
