SPECIFICATION Spec
CHECK_DEADLOCK FALSE
INVARIANT SplitLaw
INVARIANT JoinLaw
INVARIANT WrapLaw
