SPECIFICATION Spec
CHECK_DEADLOCK FALSE
INVARIANT AddCarries
INVARIANT RemoveClears
INVARIANT RoundTrip
