------------------------------- MODULE MC_Fill -------------------------------
(***************************************************************************)
(* Self-check of the C15 oracle: on every small expression the least-fixed- *)
(* point FillExists agrees with brute-force enumeration of generatable      *)
(* fillers up to a length bound (when a filler exists at all, a short one   *)
(* exists: the derivative automaton of these expressions has few states),   *)
(* and the breadth-first wrapper search agrees with brute-force chains.     *)
(***************************************************************************)
EXTENDS PMContent
Atoms == Range(Input.atoms)
RangeSpecs == Range(Input.ranges)
MaxSize == Input.maxSize
FillLen == Input.fillLen
RECURSIVE ExprsOfSize(_)
ExprsOfSize(n) ==
  IF n = 1 THEN {MkName(r) : r \in Atoms}
  ELSE LET sub == ExprsOfSize(n - 1) IN
       {MkOp(o, <<x>>) : o \in {"star", "plus", "opt"}, x \in sub}
       \cup {MkRange(x, r[1], r[2]) : x \in sub, r \in RangeSpecs}
       \cup UNION {{MkOp(o, <<x, y>>) : o \in {"seq", "choice"}, x \in ExprsOfSize(i), y \in ExprsOfSize(n - 1 - i)}
                   : i \in 1..(n - 2)}
GenNames == {n \in NodeNames : Generatable(n)}
RECURSIVE Words(_, _)
Words(A, n) == IF n = 0 THEN {<<>>} ELSE LET w == Words(A, n - 1) IN w \cup {Append(x, a) : x \in w, a \in A}
Afters == {<<>>} \cup {<<a>> : a \in NodeNames}

VARIABLE e
Init == e \in UNION {ExprsOfSize(n) : n \in 1..MaxSize}
Next == UNCHANGED e
Spec == Init /\ [][Next]_e

(* every reachable state: fixed point = brute force (fillers as long as the number of states suffice) *)
FillAgree == \A S \in ReachStates(e) : \A after \in Afters : \A toEnd \in BOOLEAN :
  FillExists(S, after, toEnd) <=>
    \E w \in Words(GenNames, Cardinality(ReachStates(e))) : IsFill(S, w, after, toEnd)
WrapAgree == \A S \in ReachStates(e) : \A target \in NodeNames :
  LET n == ShortestWrapLen(S, target) IN
  /\ (n = 0) <=> Step1(S, target) # {}
  /\ n > 0 => \E ws \in Words(NodeNames, n) : Len(ws) = n /\ IsWrapChain(S, ws, target)
  /\ n # 0 => \A ws \in Words(NodeNames, IF n = -1 THEN 2 ELSE n - 1) : ~IsWrapChain(S, ws, target)
=============================================================================
