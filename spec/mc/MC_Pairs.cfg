SPECIFICATION Spec
CHECK_DEADLOCK FALSE
INVARIANT MergeLaw
INVARIANT CommuteLaw
