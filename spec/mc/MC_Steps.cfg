SPECIFICATION Spec
CHECK_DEADLOCK FALSE
INVARIANT Closed
INVARIANT FaithfulMaps
INVARIANT ExactUndo
INVARIANT InverseMaps
INVARIANT StructureFlagLaw
INVARIANT Reinsert
