SPECIFICATION Spec
CHECK_DEADLOCK FALSE
INVARIANT CompleteIsValid
INVARIANT CompleteIsCanon
INVARIANT PrefixBalanced
