SPECIFICATION Spec
CHECK_DEADLOCK FALSE
CONSTRAINT SizeBound
INVARIANT Aligned
INVARIANT Replays
INVARIANT Undoable
INVARIANT AllValid
PROPERTY AppendOnly
