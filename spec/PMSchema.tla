------------------------------ MODULE PMSchema ------------------------------
(***************************************************************************)
(* Schema validity of flat token documents, fragments and slices, and the  *)
(* validity predicates of the model (C07).                                 *)
(***************************************************************************)
EXTENDS PMMarks

ValidKids(pt, kids) ==
  /\ ValidTypeSeq(pt, TypesOf(kids))
  /\ \A j \in 1..Len(kids) : AllowsMarks(pt, kids[j].m)

TokMarksOK(tok) == tok.k = "c" \/ (MarkNamesOK(tok.m) /\ CanonicalMarks(tok.m))

(* every node opened inside the token sequence has valid content and every
   token a canonical mark set (the sequence need not be a whole document) *)
ValidInside(d) == LET M == MatchArr(d) IN
  /\ \A i \in 1..Len(d) : TokMarksOK(d[i])
  /\ \A i \in 1..Len(d) : d[i].k = "o" => ValidKids(d[i].t, KidsOf(d, M, i))

(* a valid document: well formed, root content valid, everything inside valid *)
ValidUnder(top, d) ==
  /\ WF(d)
  /\ ValidKids(top, Kids(d, MatchArr(d), 1, Len(d)))
  /\ ValidInside(d)
Valid(d) == ValidUnder(TopType, d)

(* a fragment: balanced tokens whose nodes are valid inside (no parent given) *)
ValidFragment(f) == WF(f) /\ ValidInside(f)

(* Slice [toks, os, oe]: toks is the whole content; the first os tokens
   descend along first children (opens), the last oe along last children. *)
SliceShapeOK(s) ==
  /\ WF(s.toks) /\ s.os >= 0 /\ s.oe >= 0
  /\ s.os + s.oe <= Len(s.toks)
  /\ \A i \in 1..s.os : s.toks[i].k = "o"
  /\ \A i \in 1..s.oe : s.toks[Len(s.toks) + 1 - i].k = "c"
Inner(s) == SubSeq(s.toks, s.os + 1, Len(s.toks) - s.oe)
SliceSize(s) == Len(s.toks) - s.os - s.oe
EmptySlice == [toks |-> <<>>, os |-> 0, oe |-> 0]

(* Validity of a slice as a payload: closed nodes are fully valid; nodes on
   the open sides only need their content to be a viable part (some prefix /
   suffix may be missing), which we approximate as: marks fine everywhere and
   every node not on an open side valid. *)
OnOpenSide(s, M, i) ==
  \/ i <= s.os
  \/ (s.toks[i].k = "o" /\ M[i] > Len(s.toks) - s.oe)
ValidSlice(s) == SliceShapeOK(s) /\ LET d == s.toks  M == MatchArr(d) IN
  /\ \A i \in 1..Len(d) : TokMarksOK(d[i])
  /\ \A i \in 1..Len(d) : (d[i].k = "o" /\ ~OnOpenSide(s, M, i)) => ValidKids(d[i].t, KidsOf(d, M, i))
  /\ \A i \in 1..Len(d) : (d[i].k = "o" /\ OnOpenSide(s, M, i)) =>
        \A j \in 1..Len(KidsOf(d, M, i)) : AllowsMarks(d[i].t, KidsOf(d, M, i)[j].m)

(* The slice of a replace-around step: the node that directly receives the gap content (the innermost node around
   the inner offset `insert`) gets its content when the step is applied, so that content is judged then (by the code
   under test: insert_into) and not beforehand - the slice of every wrap step is an empty, by itself invalid,
   wrapper.  All other closed nodes, the ancestors of the receiving node included, must be valid as in ValidSlice. *)
ValidSliceAround(s, insert) == SliceShapeOK(s) /\ LET d == s.toks  M == MatchArr(d)  k == s.os + insert
                                                       \* the node that directly receives the gap: the innermost one around the insertion point
                                                       Recv(i) == d[i].k = "o" /\ i <= k /\ k < M[i]
                                                                  /\ ~(\E j \in (i + 1)..k : d[j].k = "o" /\ k < M[j]) IN
  /\ \A i \in 1..Len(d) : TokMarksOK(d[i])
  /\ \A i \in 1..Len(d) : (d[i].k = "o" /\ ~OnOpenSide(s, M, i) /\ ~Recv(i)) => ValidKids(d[i].t, KidsOf(d, M, i))
  /\ \A i \in 1..Len(d) : (d[i].k = "o" /\ (OnOpenSide(s, M, i) \/ Recv(i))) =>
        \A j \in 1..Len(KidsOf(d, M, i)) : AllowsMarks(d[i].t, KidsOf(d, M, i)[j].m)

(* ------------------------- validity predicates (C07) ------------------- *)
(* can_replace(from, to, repl[start..end]) on a node of type pt with children
   kids (index ranges, 0-based from/to as in the library) *)
CanReplace(pt, kids, from, to, repl, start, end) ==
  LET seq == SubSeq(TypesOf(kids), 1, from) \o SubSeq(TypesOf(repl), start + 1, end)
               \o SubSeq(TypesOf(kids), to + 1, Len(kids))
  IN /\ ValidTypeSeq(pt, seq)
     /\ \A j \in (start + 1)..end : AllowsMarks(pt, repl[j].m)
CanReplaceWith(pt, kids, from, to, type, marks) ==
  LET seq == SubSeq(TypesOf(kids), 1, from) \o <<type>> \o SubSeq(TypesOf(kids), to + 1, Len(kids))
  IN ValidTypeSeq(pt, seq) /\ AllowsMarks(pt, marks)
CanAppend(pt, kids, okids) == CanReplace(pt, kids, Len(kids), Len(kids), okids, 0, Len(okids))
=============================================================================
