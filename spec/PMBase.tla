------------------------------- MODULE PMBase -------------------------------
(***************************************************************************)
(* The flat token document.  A ProseMirror document is the sequence of     *)
(* tokens of the content of its root node; a position is an index 0..Len.  *)
(*   k : "o" open node | "c" close node | "l" leaf node | "x" one UTF-16   *)
(*       code unit of text                                                 *)
(*   t : node type name ("text" for x, "" for c)                           *)
(*   a : record attrName -> canonical JSON string (opaque)                 *)
(*   m : sequence of marks [t : name, a : canonical JSON string]           *)
(*   c : code unit (x), 0 otherwise                                        *)
(*   b : x only - TRUE iff this unit starts a text node in the real tree   *)
(* The schema and all run-time input come from one JSON file named by the  *)
(* environment variable PMV_INPUT (single source for TLC and the harness). *)
(***************************************************************************)
EXTENDS Integers, Sequences, FiniteSets, TLC, Json, IOUtils

Input  == JsonDeserialize(IOEnv.PMV_INPUT)
Schema == Input.schema

Min2(a, b) == IF a < b THEN a ELSE b
Max2(a, b) == IF a > b THEN a ELSE b
SetMin(S) == CHOOSE x \in S : \A y \in S : x <= y
SetMax(S) == CHOOSE x \in S : \A y \in S : x >= y
Range(s) == {s[i] : i \in 1..Len(s)}
Rev(s) == [i \in 1..Len(s) |-> s[Len(s) + 1 - i]]
Last(s) == s[Len(s)]
Front(s) == SubSeq(s, 1, Len(s) - 1)
RECURSIVE SumSeq(_)
SumSeq(s) == IF s = <<>> THEN 0 ELSE Head(s) + SumSeq(Tail(s))
RECURSIVE FlattenSeq(_)
FlattenSeq(ss) == IF ss = <<>> THEN <<>> ELSE Head(ss) \o FlattenSeq(Tail(ss))
IsPrefixOf(s, t) == Len(s) <= Len(t) /\ SubSeq(t, 1, Len(s)) = s
Suffix(s, n) == SubSeq(s, Len(s) - n + 1, Len(s))
Rep(x, n) == [i \in 1..n |-> x]

----------------------------------------------------------------------------
(* Schema tables *)
NodeSpecs == Schema.nodes
MarkSpecs == Schema.marks
NodeNames == {NodeSpecs[i].n : i \in 1..Len(NodeSpecs)}
MarkNames == {MarkSpecs[i].n : i \in 1..Len(MarkSpecs)}
NTab == [n \in NodeNames |-> NodeSpecs[CHOOSE i \in 1..Len(NodeSpecs) : NodeSpecs[i].n = n]]
MTab == [n \in MarkNames |-> MarkSpecs[CHOOSE i \in 1..Len(MarkSpecs) : MarkSpecs[i].n = n]]
RankTab == [n \in MarkNames |-> CHOOSE i \in 1..Len(MarkSpecs) : MarkSpecs[i].n = n]
NT(n) == NTab[n]
MT(n) == MTab[n]
Rank(n) == RankTab[n]
TopType == Schema.top
IsLeafType(n) == NT(n).content.op = "eps"     \* the empty content expression
IsTextType(n) == n = "text"
IsInlineType(n) == n = "text" \/ NT(n).inline
HasReqAttrs(n) == \E i \in 1..Len(NT(n).attrs) : NT(n).attrs[i].req
Generatable(n) == ~IsTextType(n) /\ ~HasReqAttrs(n)
Flag(n, f) == f \in Range(NT(n).flags)

----------------------------------------------------------------------------
(* Tokens *)
CloseTok == [k |-> "c", t |-> "", a |-> <<>>, m |-> <<>>, c |-> 0, b |-> FALSE]
OpenTok(t, a, m) == [k |-> "o", t |-> t, a |-> a, m |-> m, c |-> 0, b |-> FALSE]
LeafTok(t, a, m) == [k |-> "l", t |-> t, a |-> a, m |-> m, c |-> 0, b |-> FALSE]
TextTok(c, m, b) == [k |-> "x", t |-> "text", a |-> <<>>, m |-> m, c |-> c, b |-> b]
Delta(tok) == IF tok.k = "o" THEN 1 ELSE IF tok.k = "c" THEN -1 ELSE 0

RECURSIVE DepthAcc(_, _, _, _)
DepthAcc(d, i, cur, acc) ==
  IF i > Len(d) THEN acc
  ELSE LET nx == cur + Delta(d[i]) IN DepthAcc(d, i + 1, nx, Append(acc, nx))
(* DepthArr(d)[p+1] = nesting depth of position p (opens minus closes before p) *)
DepthArr(d) == DepthAcc(d, 1, 0, <<0>>)
Depth(d, p) == DepthArr(d)[p + 1]

Balanced(d) == LET D == DepthArr(d) IN
  /\ \A i \in 1..Len(D) : D[i] >= 0
  /\ D[Len(D)] = 0

(* token kinds agree with the schema's node kinds *)
KindOK(tok) ==
  \/ tok.k = "c" /\ tok.t = ""
  \/ tok.k = "x" /\ tok.t = "text" /\ "text" \in NodeNames
  \/ tok.k = "o" /\ tok.t \in NodeNames /\ ~IsLeafType(tok.t) /\ ~IsTextType(tok.t)
  \/ tok.k = "l" /\ tok.t \in NodeNames /\ IsLeafType(tok.t) /\ ~IsTextType(tok.t)
KindsOK(d) == \A i \in 1..Len(d) : KindOK(d[i])

WF(d) == Balanced(d) /\ KindsOK(d)

(* Matching array: M[i] = index of the matching close/open for o/c tokens, 0 else.
   Requires Balanced(d). *)
RECURSIVE MatchAcc(_, _, _, _)
MatchAcc(d, i, stack, acc) ==
  IF i > Len(d) THEN acc
  ELSE IF d[i].k = "o" THEN MatchAcc(d, i + 1, <<i>> \o stack, Append(acc, 0))
  ELSE IF d[i].k = "c"
       THEN LET j == Head(stack) IN
            MatchAcc(d, i + 1, Tail(stack), [Append(acc, j) EXCEPT ![j] = i])
  ELSE MatchAcc(d, i + 1, stack, Append(acc, 0))
MatchArr(d) == MatchAcc(d, 1, <<>>, <<>>)

(* Stack of open-token indices enclosing position p, outermost first. *)
RECURSIVE StackAcc(_, _, _, _)
StackAcc(d, i, p, stack) ==
  IF i > p THEN stack
  ELSE IF d[i].k = "o" THEN StackAcc(d, i + 1, p, Append(stack, i))
  ELSE IF d[i].k = "c" THEN StackAcc(d, i + 1, p, Front(stack))
  ELSE StackAcc(d, i + 1, p, stack)
StackAt(d, p) == StackAcc(d, 1, p, <<>>)

(* End of the text run starting at i within ..hi: maximal x tokens with the
   marks of d[i] (a text node of a canonical document). *)
RECURSIVE RunEnd(_, _, _)
RunEnd(d, i, hi) ==
  IF i < hi /\ d[i + 1].k = "x" /\ d[i + 1].m = d[i].m THEN RunEnd(d, i + 1, hi) ELSE i

(* Children of the token range lo..hi (a node's content), as records
   [t type, m marks, s first token, e last token]. M = MatchArr(d). *)
RECURSIVE KidsAcc(_, _, _, _, _)
KidsAcc(d, M, i, hi, acc) ==
  IF i > hi THEN acc
  ELSE LET tk == d[i] IN
    IF tk.k = "o"
    THEN KidsAcc(d, M, M[i] + 1, hi, Append(acc, [t |-> tk.t, m |-> tk.m, s |-> i, e |-> M[i]]))
    ELSE IF tk.k = "l"
    THEN KidsAcc(d, M, i + 1, hi, Append(acc, [t |-> tk.t, m |-> tk.m, s |-> i, e |-> i]))
    ELSE IF tk.k = "x"
    THEN LET e == RunEnd(d, i, hi) IN
         KidsAcc(d, M, e + 1, hi, Append(acc, [t |-> "text", m |-> tk.m, s |-> i, e |-> e]))
    ELSE acc
Kids(d, M, lo, hi) == KidsAcc(d, M, lo, hi, <<>>)
(* children of the node opened at token o (o = 0: the root) *)
KidsOf(d, M, o) == IF o = 0 THEN Kids(d, M, 1, Len(d)) ELSE Kids(d, M, o + 1, M[o] - 1)
TypeOfOpen(d, o) == IF o = 0 THEN TopType ELSE d[o].t
TypesOf(kids) == [j \in 1..Len(kids) |-> kids[j].t]

(* Text canonicity: flag b marks exactly the starts of maximal equal-mark runs,
   i.e. adjacent same-markup text is merged and no text node is split. *)
CanonB(d, i) == i = 1 \/ d[i - 1].k # "x" \/ d[i - 1].m # d[i].m
Canon(d) == \A i \in 1..Len(d) : d[i].k = "x" => (d[i].b <=> CanonB(d, i))
Canonize(d) == [i \in 1..Len(d) |->
                  IF d[i].k = "x" THEN [d[i] EXCEPT !.b = CanonB(d, i)] ELSE d[i]]
(* token identity ignoring the text-node boundary flag *)
Unflag(d) == [i \in 1..Len(d) |-> IF d[i].k = "x" THEN [d[i] EXCEPT !.b = FALSE] ELSE d[i]]
SameToks(d1, d2) == Unflag(d1) = Unflag(d2)

(* Leaf sequence: text units and leaf nodes, in order *)
IsLeafy(tok) == tok.k = "x" \/ tok.k = "l"
LeafSeq(d) == Unflag(SelectSeq(d, IsLeafy))
IsX(tok) == tok.k = "x"
TextOf(d) == LET xs == SelectSeq(d, IsX) IN [i \in 1..Len(xs) |-> xs[i].c]
(* skeleton: kind, type and code unit - what mark/attr steps must not change *)
Skel(d) == [i \in 1..Len(d) |-> <<d[i].k, d[i].t, d[i].c>>]

RECURSIVE IsSubseq(_, _)
IsSubseq(s, t) ==
  IF s = <<>> THEN TRUE
  ELSE IF t = <<>> THEN FALSE
  ELSE IF Head(s) = Head(t) THEN IsSubseq(Tail(s), Tail(t)) ELSE IsSubseq(s, Tail(t))
=============================================================================
