-------------------------------- MODULE PMStep --------------------------------
(***************************************************************************)
(* The eight step types at token level: Apply, GetMap, InvertStep,         *)
(* MapStep, Merge (reference semantics).  A step is a record with field    *)
(* `type`; results are [ok : BOOLEAN, doc : tokens, attrs : root attrs].   *)
(* Root (document node) attributes are not tokens; they travel next to the *)
(* token sequence as a record `ra`.                                        *)
(***************************************************************************)
EXTENDS PMReplace, PMMap

Fail == [ok |-> FALSE, doc |-> <<>>, ra |-> <<>>]
Ok(d, ra) == [ok |-> TRUE, doc |-> d, ra |-> ra]

(* the tokens strictly between two positions are only closes followed by opens *)
StructureOnly(d, f, t) ==
  \E k \in f..t : (\A i \in (f + 1)..k : d[i].k = "c") /\ (\A i \in (k + 1)..t : d[i].k = "o")

InRange(d, p) == 0 <= p /\ p <= Len(d)
(* total access to attribute records (recorded documents may lack a declared attribute when the code
   under test is broken; the verdict must still be computed) *)
FieldOr(r, name, dflt) == IF name \in DOMAIN r THEN r[name] ELSE dflt
WithField(r, name, v) == [x \in (DOMAIN r) \cup {name} |-> IF x = name THEN v ELSE r[x]]

(* What the structure flag tests in the code (content_between): from `f` it steps out of nodes while
   nothing follows in them, then walks down first children, consuming one unit of t - f per level.
   A position in the middle of a text node counts that text node as passed (index_after), so the walk
   starts at the end of the text node: for such `f` the rest of the text node is treated as structure
   (deviation from "only closes then opens", identical in upstream). *)
MidText(d, f) == f >= 1 /\ f < Len(d) /\ d[f].k = "x" /\ d[f + 1].k = "x" /\ ~d[f + 1].b
TextNodeEnd(d, f) == SetMax({j \in f..Len(d) : \A i \in (f + 1)..j : d[i].k = "x" /\ ~d[i].b})
StructureOnlyImpl(d, f, t) ==
  LET p0 == IF MidText(d, f) THEN TextNodeEnd(d, f) ELSE f
      dist == t - f
      k == SetMax({j \in 0..dist : j <= Depth(d, f) /\ p0 + j <= Len(d) /\ \A i \in 1..j : d[p0 + i].k = "c"})
  IN \A i \in 1..(dist - k) : p0 + k + i <= Len(d) /\ d[p0 + k + i].k = "o"

ApplyReplace(d, f, t, s) ==
  IF ~(InRange(d, f) /\ InRange(d, t) /\ f <= t) THEN Fail
  ELSE IF ~DepthsFit(d, f, t, s) THEN Fail
  ELSE IF ~JoinsOK(d, f, t, s) THEN Fail
  ELSE LET sp == Splice(d, f, t, s) IN IF Valid(sp) THEN [ok |-> TRUE, doc |-> sp] ELSE Fail

(* slice with the gap content inserted at inner offset `insert` *)
InsertAt(s, insert, gap) ==
  LET k == s.os + insert IN
  [toks |-> Canonize(SubSeq(s.toks, 1, k) \o gap \o SubSeq(s.toks, k + 1, Len(s.toks))),
   os |-> s.os, oe |-> s.oe]
FlatRange(d, f, t) == Depth(d, f) = Depth(d, t) /\ SharedDepth(d, f, t) = Depth(d, f)

IsInlineTok(tok) == tok.k # "c" /\ IsInlineType(tok.t)
IsAtomTok(tok) == tok.k = "x" \/ tok.k = "l" \/ (tok.k = "o" /\ Flag(tok.t, "atom"))
(* type of the node that is the parent of token i *)
ParentTypeAt(d, i) == LET st == StackAt(d, i - 1) IN IF st = <<>> THEN TopType ELSE d[Last(st)].t

AddMarkToks(d, f, t, mk) ==
  Canonize([i \in 1..Len(d) |->
     IF f < i /\ i <= t /\ IsInlineTok(d[i]) /\ IsAtomTok(d[i]) /\ AllowsMarkType(ParentTypeAt(d, i), mk.t)
     THEN [d[i] EXCEPT !.m = AddToSet(mk, @)] ELSE d[i]])
RemoveMarkToks(d, f, t, mk) ==
  Canonize([i \in 1..Len(d) |->
     IF f < i /\ i <= t /\ IsInlineTok(d[i]) THEN [d[i] EXCEPT !.m = RemoveFromSet(mk, @)] ELSE d[i]])

(* the node starting at position p: token p+1 must open a node or be a leaf *)
NodeTokAt(d, p) == IF p < Len(d) /\ d[p + 1].k \in {"o", "l"} THEN p + 1 ELSE 0
DeclaredAttr(n, a) == \E i \in 1..Len(NT(n).attrs) : NT(n).attrs[i].n = a
AttrSpecOf(n, a) == NT(n).attrs[CHOOSE i \in 1..Len(NT(n).attrs) : NT(n).attrs[i].n = a]
(* The library treats a None attribute value as "not given": the default is used, and an
   attribute without default refuses it (a deviation from the JavaScript original, where only
   `undefined` means "not given"; named here so that it is a visible part of the specification). *)
AttrValue(n, a, v) ==
  IF v # "null" THEN [ok |-> TRUE, v |-> v]
  ELSE IF AttrSpecOf(n, a).req THEN [ok |-> FALSE, v |-> v]
  ELSE [ok |-> TRUE, v |-> AttrSpecOf(n, a).def]

Apply(st, d, ra) ==
  CASE st.type = "replace" ->
         IF st.structure /\ InRange(d, st.from) /\ InRange(d, st.to) /\ st.from <= st.to
            /\ ~StructureOnlyImpl(d, st.from, st.to) THEN Fail
         ELSE LET r == ApplyReplace(d, st.from, st.to, st.slice) IN IF r.ok THEN Ok(r.doc, ra) ELSE Fail
    [] st.type = "replaceAround" ->
         IF ~(InRange(d, st.from) /\ InRange(d, st.to) /\ st.from <= st.gapFrom /\ st.gapFrom <= st.gapTo
              /\ st.gapTo <= st.to) THEN Fail
         ELSE IF st.structure /\ (~StructureOnlyImpl(d, st.from, st.gapFrom) \/ ~StructureOnlyImpl(d, st.gapTo, st.to)) THEN Fail
         ELSE IF ~FlatRange(d, st.gapFrom, st.gapTo) THEN Fail
         ELSE IF st.insert < 0 \/ st.insert > SliceSize(st.slice) THEN Fail
         ELSE LET r == ApplyReplace(d, st.from, st.to,
                                    InsertAt(st.slice, st.insert, SubSeq(d, st.gapFrom + 1, st.gapTo)))
              IN IF r.ok THEN Ok(r.doc, ra) ELSE Fail
    [] st.type = "addMark" ->
         IF ~(InRange(d, st.from) /\ InRange(d, st.to) /\ st.from <= st.to) THEN Fail
         ELSE LET d2 == AddMarkToks(d, st.from, st.to, st.mark) IN IF Valid(d2) THEN Ok(d2, ra) ELSE Fail
    [] st.type = "removeMark" ->
         IF ~(InRange(d, st.from) /\ InRange(d, st.to) /\ st.from <= st.to) THEN Fail
         ELSE LET d2 == RemoveMarkToks(d, st.from, st.to, st.mark) IN IF Valid(d2) THEN Ok(d2, ra) ELSE Fail
    [] st.type = "addNodeMark" ->
         LET i == IF InRange(d, st.pos) THEN NodeTokAt(d, st.pos) ELSE 0 IN
         IF i = 0 THEN Fail
         ELSE LET d2 == [d EXCEPT ![i].m = AddToSet(st.mark, @)] IN IF Valid(d2) THEN Ok(d2, ra) ELSE Fail
    [] st.type = "removeNodeMark" ->
         LET i == IF InRange(d, st.pos) THEN NodeTokAt(d, st.pos) ELSE 0 IN
         IF i = 0 THEN Fail
         ELSE LET d2 == [d EXCEPT ![i].m = RemoveFromSet(st.mark, @)] IN IF Valid(d2) THEN Ok(d2, ra) ELSE Fail
    [] st.type = "attr" ->
         LET i == IF InRange(d, st.pos) THEN NodeTokAt(d, st.pos) ELSE 0 IN
         IF i = 0 THEN Fail
         ELSE IF DeclaredAttr(d[i].t, st.attr)
              THEN LET av == AttrValue(d[i].t, st.attr, st.value) IN
                   IF av.ok THEN Ok([d EXCEPT ![i].a = WithField(@, st.attr, av.v)], ra) ELSE Fail
              ELSE Ok(d, ra)
    [] st.type = "docAttr" ->
         IF DeclaredAttr(TopType, st.attr)
         THEN LET av == AttrValue(TopType, st.attr, st.value) IN
              IF av.ok THEN Ok(d, WithField(ra, st.attr, av.v)) ELSE Fail
         ELSE Ok(d, ra)

(* position maps: ranges as triples *)
GetMap(st) ==
  CASE st.type = "replace" ->
         [ranges |-> << <<st.from, st.to - st.from, SliceSize(st.slice)>> >>, inv |-> FALSE]
    [] st.type = "replaceAround" ->
         [ranges |-> << <<st.from, st.gapFrom - st.from, st.insert>>,
                        <<st.gapTo, st.to - st.gapTo, SliceSize(st.slice) - st.insert>> >>, inv |-> FALSE]
    [] OTHER -> [ranges |-> <<>>, inv |-> FALSE]
(* ranges with both sizes zero carry no information: the library keeps them, so do we *)

(* C03: the map is faithful to what the step did *)
RECURSIVE RangeOf(_, _, _)
(* index of the range whose old span (start, start+old] contains token index i, else 0 *)
RangeOf(rs, k, i) == IF k > Len(rs) THEN 0
                     ELSE IF rs[k][1] < i /\ i <= rs[k][1] + rs[k][2] THEN k ELSE RangeOf(rs, k + 1, i)
RECURSIVE ShiftAt(_, _, _)
(* accumulated new-old of the ranges that end at or before token index i *)
ShiftAt(rs, k, i) == IF k > Len(rs) THEN 0
                     ELSE (IF rs[k][1] + rs[k][2] < i THEN rs[k][3] - rs[k][2] ELSE 0) + ShiftAt(rs, k + 1, i)
Faithful(d, d2, rs, exact) ==
  /\ Len(d2) = Len(d) + SumSeq([k \in 1..Len(rs) |-> rs[k][3] - rs[k][2]])
  /\ \A i \in 1..Len(d) : RangeOf(rs, 1, i) = 0 =>
        LET j == i + ShiftAt(rs, 1, i) IN
        /\ j >= 1 /\ j <= Len(d2)
        /\ IF exact THEN Unflag(<<d2[j]>>) = Unflag(<<d[i]>>)
           ELSE <<d2[j].k, d2[j].t, d2[j].c>> = <<d[i].k, d[i].t, d[i].c>>

(* ---- inversion ---- *)
RemoveBetween(s, a, b) ==
  [toks |-> Canonize(SubSeq(s.toks, 1, a + s.os) \o SubSeq(s.toks, b + s.os + 1, Len(s.toks))),
   os |-> s.os, oe |-> s.oe]
InvertStep(st, d, ra) ==
  CASE st.type = "replace" ->
         [type |-> "replace", from |-> st.from, to |-> st.from + SliceSize(st.slice),
          slice |-> Cut(d, st.from, st.to), structure |-> FALSE]
    [] st.type = "replaceAround" ->
         LET gap == st.gapTo - st.gapFrom IN
         [type |-> "replaceAround", from |-> st.from, to |-> st.from + SliceSize(st.slice) + gap,
          gapFrom |-> st.from + st.insert, gapTo |-> st.from + st.insert + gap,
          slice |-> RemoveBetween(Cut(d, st.from, st.to), st.gapFrom - st.from, st.gapTo - st.from),
          insert |-> st.gapFrom - st.from, structure |-> st.structure]
    [] st.type = "addMark" -> [st EXCEPT !.type = "removeMark"]
    [] st.type = "removeMark" -> [st EXCEPT !.type = "addMark"]
    [] st.type = "addNodeMark" ->
         LET i == NodeTokAt(d, st.pos) IN
         IF i = 0 THEN [st EXCEPT !.type = "removeNodeMark"]
         ELSE LET old == d[i].m
                  new == AddToSet(st.mark, old)
                  gone == {k \in 1..Len(old) : ~IsInSet(old[k], new)} IN
              IF Len(new) = Len(old)
              THEN IF gone # {} THEN [st EXCEPT !.mark = old[SetMin(gone)]] ELSE st
              ELSE [st EXCEPT !.type = "removeNodeMark"]
    [] st.type = "removeNodeMark" ->
         LET i == NodeTokAt(d, st.pos) IN
         IF i = 0 \/ ~IsInSet(st.mark, d[i].m) THEN st ELSE [st EXCEPT !.type = "addNodeMark"]
    [] st.type = "attr" -> [st EXCEPT !.value = IF InRange(d, st.pos) /\ NodeTokAt(d, st.pos) # 0
                                                 THEN FieldOr(d[NodeTokAt(d, st.pos)].a, st.attr, "null") ELSE "null"]
    [] st.type = "docAttr" -> [st EXCEPT !.value = FieldOr(ra, st.attr, "null")]

(* ---- rebasing over a mapping (reference; C17 constrains only separated steps) ---- *)
Dropped == [type |-> "none"]
MapStep(st, mp) ==
  CASE st.type = "replace" ->
         LET f == MappingRes(mp, st.from, 1)
             t == MappingRes(mp, st.to, -1) IN
         IF Deleted(f) /\ Deleted(t) THEN Dropped
         \* (the pinned library does not carry the structure flag over when rebasing a replace step)
         ELSE [st EXCEPT !.from = f.pos, !.to = Max2(f.pos, t.pos), !.structure = FALSE]
    [] st.type = "replaceAround" ->
         LET f == MappingRes(mp, st.from, 1)
             t == MappingRes(mp, st.to, -1)
             gf == MappingPos(mp, st.gapFrom, -1)
             gt == MappingPos(mp, st.gapTo, 1) IN
         IF (Deleted(f) /\ Deleted(t)) \/ gf < f.pos \/ gt > t.pos THEN Dropped
         ELSE [st EXCEPT !.from = f.pos, !.to = t.pos, !.gapFrom = gf, !.gapTo = gt]
    [] st.type \in {"addMark", "removeMark"} ->
         LET f == MappingRes(mp, st.from, 1)
             t == MappingRes(mp, st.to, -1) IN
         IF (Deleted(f) /\ Deleted(t)) \/ f.pos > t.pos THEN Dropped
         ELSE [st EXCEPT !.from = f.pos, !.to = t.pos]
    [] st.type \in {"addNodeMark", "removeNodeMark", "attr"} ->
         LET p == MappingRes(mp, st.pos, 1) IN
         IF DelAfter(p) THEN Dropped ELSE [st EXCEPT !.pos = p.pos]
    [] st.type = "docAttr" -> st
MapOver(st, m) == MapStep(st, [maps |-> <<m>>, mirror |-> <<>>, from |-> 0, to |-> 1])

(* the tokens a step touches, as a position interval [lo, hi]; docAttr touches nothing *)
Touched(st) ==
  CASE st.type \in {"replace", "replaceAround", "addMark", "removeMark"} -> <<st.from, st.to>>
    [] st.type \in {"addNodeMark", "removeNodeMark", "attr"} -> <<st.pos, st.pos + 1>>
    [] OTHER -> <<0, -1>>

(* A replace also touches what it re-parents: the tokens after `to` that end up in a node of different
   markup - the remainder of an ancestor of `to` that is joined onto the slice's open end node, or (where the
   slice is shallower, and for deletions) onto the corresponding ancestor of `from`, when that node has another
   type, other attributes or marks.  E.g. splitting a paragraph with a slice  </p><code_block>  turns the rest of
   the paragraph into a code block.  (Node.replace keeps the document's nodes on the `from` side, so nothing before
   `from` is re-parented.)  The interval then extends to the close token of the outermost such ancestor. *)
Markup(tok) == <<tok.t, tok.a, tok.m>>
SliceOpenEndToks(s) == LET M == MatchArr(s.toks) IN [j \in 1..s.oe |-> s.toks[M[Len(s.toks) - j + 1]]]
RetypeEnd(d, f, t, s) ==
  IF ~(InRange(d, f) /\ InRange(d, t) /\ f <= t) THEN t
  ELSE IF ~DepthsFit(d, f, t, s) THEN t
  ELSE LET af == StackAt(d, f)
           at == StackAt(d, t)
           extra == Len(af) - s.os
           stop == StopDepth(d, f, t, s)
           lv == {k \in (stop + 1)..Len(at) :
                    Markup(d[at[k]]) # Markup(IF k <= extra THEN d[af[k]] ELSE SliceOpenEndToks(s)[k - extra])}
       IN IF lv = {} THEN t ELSE MatchArr(d)[at[SetMin(lv)]]
TouchedIn(st, d) ==
  CASE st.type = "replace" -> <<st.from, RetypeEnd(d, st.from, st.to, st.slice)>>
    [] st.type = "replaceAround" ->
         IF InRange(d, st.from) /\ InRange(d, st.to) /\ st.from <= st.gapFrom /\ st.gapFrom <= st.gapTo /\ st.gapTo <= st.to
            /\ st.insert >= 0 /\ st.insert <= SliceSize(st.slice)
         THEN <<st.from, RetypeEnd(d, st.from, st.to, InsertAt(st.slice, st.insert, SubSeq(d, st.gapFrom + 1, st.gapTo)))>>
         ELSE <<st.from, st.to>>
    [] OTHER -> Touched(st)

(* ---- merging ---- *)
NoMerge == [type |-> "none"]
SliceCat(a, b) ==
  IF SliceSize(a) + SliceSize(b) = 0 THEN EmptySlice
  ELSE [toks |-> Canonize(a.toks \o b.toks), os |-> a.os, oe |-> b.oe]
Merge(s1, s2) ==
  IF s1.type = "replace" /\ s2.type = "replace" /\ ~s1.structure /\ ~s2.structure
  THEN IF s1.from + SliceSize(s1.slice) = s2.from /\ s1.slice.oe = 0 /\ s2.slice.os = 0
       THEN [type |-> "replace", from |-> s1.from, to |-> s1.to + (s2.to - s2.from),
             slice |-> SliceCat(s1.slice, s2.slice), structure |-> FALSE]
       ELSE IF s2.to = s1.from /\ s1.slice.os = 0 /\ s2.slice.oe = 0
       THEN [type |-> "replace", from |-> s2.from, to |-> s1.to,
             slice |-> SliceCat(s2.slice, s1.slice), structure |-> FALSE]
       ELSE NoMerge
  ELSE IF s1.type \in {"addMark", "removeMark"} /\ s2.type = s1.type /\ s1.mark = s2.mark
          /\ s1.from <= s2.to /\ s1.to >= s2.from
  THEN [s1 EXCEPT !.from = Min2(s1.from, s2.from), !.to = Max2(s1.to, s2.to)]
  ELSE NoMerge
=============================================================================
