--------------------------- MODULE PMMapUnrolled ---------------------------
(***************************************************************************)
(* The position rule of a step map with (up to) three ranges written        *)
(* without recursion and without sequences, over plain integers, so that    *)
(* Apalache can decide laws about it for *all* integer sizes and positions  *)
(* (spec/apalache/MapLaws3.tla).  A range of size (0, 0) is neutral for the *)
(* position rule, so three ranges cover maps with fewer.  MC_Map checks     *)
(* with TLC that this unrolled form agrees with PMMap!MapPos on every map   *)
(* it enumerates (bridge invariant UnrolledAgrees).                         *)
(*   b        : inverted flag                                               *)
(*   s1,o1,n1 : start, old size, new size of the first stored range         *)
(*   s2.., s3..: the same for the second and third                          *)
(***************************************************************************)
EXTENDS Integers

OldU(b, o, n) == IF b THEN n ELSE o
NewU(b, o, n) == IF b THEN o ELSE n

(* one range: either the position is decided here, or the scan goes on with `rest` *)
RangeU(b, st, o, n, diff, pos, assoc, rest) ==
  LET start == st - (IF b THEN diff ELSE 0)
      old == OldU(b, o, n)
      new == NewU(b, o, n)
      end == start + old
  IN IF start > pos THEN pos + diff
     ELSE IF pos <= end
          THEN LET side == IF old = 0 THEN assoc
                           ELSE IF pos = start THEN -1
                           ELSE IF pos = end THEN 1 ELSE assoc
               IN start + diff + (IF side < 0 THEN 0 ELSE new)
          ELSE rest

MapU(b, s1, o1, n1, s2, o2, n2, s3, o3, n3, pos, assoc) ==
  LET d1 == NewU(b, o1, n1) - OldU(b, o1, n1)
      d2 == d1 + NewU(b, o2, n2) - OldU(b, o2, n2)
      d3 == d2 + NewU(b, o3, n3) - OldU(b, o3, n3)
  IN RangeU(b, s1, o1, n1, 0, pos, assoc,
       RangeU(b, s2, o2, n2, d1, pos, assoc,
         RangeU(b, s3, o3, n3, d2, pos, assoc, pos + d3)))

(* the position is inside or at the border of one of the ranges (pre-image coordinates of this map) *)
StartU(b, st, diff) == st - (IF b THEN diff ELSE 0)
TouchesU(b, s1, o1, n1, s2, o2, n2, s3, o3, n3, pos) ==
  LET d1 == NewU(b, o1, n1) - OldU(b, o1, n1)
      d2 == d1 + NewU(b, o2, n2) - OldU(b, o2, n2)
      a1 == StartU(b, s1, 0)
      a2 == StartU(b, s2, d1)
      a3 == StartU(b, s3, d2)
  IN \/ (a1 <= pos /\ pos <= a1 + OldU(b, o1, n1))
     \/ (a2 <= pos /\ pos <= a2 + OldU(b, o2, n2))
     \/ (a3 <= pos /\ pos <= a3 + OldU(b, o3, n3))
=============================================================================
