------------------------------ MODULE PMReplace ------------------------------
(***************************************************************************)
(* Cutting and replacing as arithmetic on the flat token sequence (C02).   *)
(***************************************************************************)
EXTENDS PMSchema

(* shared depth of a range = minimum nesting depth over its positions *)
SharedDepth(d, f, t) == LET D == DepthArr(d) IN SetMin({D[p + 1] : p \in f..t})

(* Node.slice(f, t): the tokens of the range, preceded by the open tokens of
   the ancestors of f below the shared depth and followed by closes *)
Cut(d, f, t) ==
  IF f = t THEN EmptySlice
  ELSE LET sd == SharedDepth(d, f, t)
           anc == StackAt(d, f)
           df == Depth(d, f)
           dt == Depth(d, t)
       IN [toks |-> Canonize([j \in 1..(df - sd) |-> d[anc[sd + j]]]
                             \o SubSeq(d, f + 1, t)
                             \o Rep(CloseTok, dt - sd)),
           os |-> df - sd, oe |-> dt - sd]

(* Fragment.cut / Node.cut(f, t) on a node's content: the tokens f..t with the
   enclosing structure of f and t inside the fragment closed/opened again *)
FragmentCut(d, f, t) ==
  IF t <= f THEN <<>>
  ELSE LET anc == StackAt(d, f)
           df == Depth(d, f)
           dt == Depth(d, t)
           sd == SharedDepth(d, f, t)
       IN Canonize([j \in 1..df |-> d[anc[j]]] \o SubSeq(d, f + 1, t) \o Rep(CloseTok, dt))

(* the splice *)
Splice(d, f, t, s) == Canonize(SubSeq(d, 1, f) \o Inner(s) \o SubSeq(d, t + 1, Len(d)))

(* what Node.replace may return (contract) *)
ReplaceOk(d, f, t, s, d2) ==
  /\ d2 = Splice(d, f, t, s)
  /\ Valid(d2)
(* when it must refuse: the splice is not a well-formed valid tree *)
ReplaceMustFail(d, f, t, s) == ~Valid(Splice(d, f, t, s))
(* when it must not refuse: putting back what was cut *)
ReplaceMustSucceed(d, f, t, s) == s = Cut(d, f, t)

(* depth conditions the library checks first; equivalent to balance of the splice *)
DepthsFit(d, f, t, s) ==
  /\ s.os <= Depth(d, f)
  /\ Depth(d, f) - s.os = Depth(d, t) - s.oe

(* Reference refusal rule for joins (stricter than validity, allowed): nodes
   joined across a seam must have compatible content. *)
\* open tokens of the slice's start side, outermost first
SliceOpenStart(s) == [j \in 1..s.os |-> s.toks[j]]
\* types of the nodes open at the end of the slice, outermost first
SliceOpenEndTypes(s) ==
  LET M == MatchArr(s.toks) IN
  [j \in 1..s.oe |-> s.toks[M[Len(s.toks) - j + 1]].t]
JoinsOK(d, f, t, s) ==
  LET af == StackAt(d, f)
      at == StackAt(d, t)
      df == Len(af)
      dt == Len(at)
  IN IF Len(s.toks) = 0
     THEN \* two-way: nodes of f joined with nodes of t below the shared parent
          LET sd == SharedDepth(d, f, t) IN
          \A k \in (sd + 1)..df : CompatibleContent(d[at[k]].t, d[af[k]].t)
     ELSE /\ \A j \in 1..s.os :
               CompatibleContent(s.toks[j].t, d[af[df - s.os + j]].t)
          /\ \A j \in 1..s.oe :
               CompatibleContent(d[at[dt - s.oe + j]].t, SliceOpenEndTypes(s)[s.oe + 1 - j])
=============================================================================
