------------------------------ MODULE PMReplace ------------------------------
(***************************************************************************)
(* Cutting and replacing as arithmetic on the flat token sequence (C02).   *)
(***************************************************************************)
EXTENDS PMSchema

(* shared depth of a range = minimum nesting depth over its positions *)
SharedDepth(d, f, t) == LET D == DepthArr(d) IN SetMin({D[p + 1] : p \in f..t})

(* Node.slice(f, t): the tokens of the range, preceded by the open tokens of
   the ancestors of f below the shared depth and followed by closes *)
Cut(d, f, t) ==
  IF f = t THEN EmptySlice
  ELSE LET sd == SharedDepth(d, f, t)
           anc == StackAt(d, f)
           df == Depth(d, f)
           dt == Depth(d, t)
       IN [toks |-> Canonize([j \in 1..(df - sd) |-> d[anc[sd + j]]]
                             \o SubSeq(d, f + 1, t)
                             \o Rep(CloseTok, dt - sd)),
           os |-> df - sd, oe |-> dt - sd]

(* Fragment.cut / Node.cut(f, t) on a node's content: the tokens f..t with the
   enclosing structure of f and t inside the fragment closed/opened again *)
FragmentCut(d, f, t) ==
  IF t <= f THEN <<>>
  ELSE LET anc == StackAt(d, f)
           df == Depth(d, f)
           dt == Depth(d, t)
           sd == SharedDepth(d, f, t)
       IN Canonize([j \in 1..df |-> d[anc[j]]] \o SubSeq(d, f + 1, t) \o Rep(CloseTok, dt))

(* the splice *)
Splice(d, f, t, s) == Canonize(SubSeq(d, 1, f) \o Inner(s) \o SubSeq(d, t + 1, Len(d)))

(* what Node.replace may return (contract) *)
ReplaceOk(d, f, t, s, d2) ==
  /\ d2 = Splice(d, f, t, s)
  /\ Valid(d2)
(* when it must refuse: the splice is not a well-formed valid tree *)
ReplaceMustFail(d, f, t, s) == ~Valid(Splice(d, f, t, s))
(* when it must not refuse: putting back what was cut *)
ReplaceMustSucceed(d, f, t, s) == s = Cut(d, f, t)

(* depth conditions the library checks first; equivalent to balance of the splice *)
DepthsFit(d, f, t, s) ==
  /\ s.os <= Depth(d, f)
  /\ Depth(d, f) - s.os = Depth(d, t) - s.oe

(* The join rule.  Node.replace descends while both ends lie in the same child and the slice
   still has to go deeper (StopDepth), and from there joins, level by level, the nodes open at
   `f` with the nodes open at the start of the slice, and the nodes open at the end of the slice
   with the nodes open at `t`.  Where the slice is shallower than the position (levels up to
   extra = depth(f) - openStart) the nodes around `f` stand in for the slice on both sides, so
   there the ancestors of `t` are joined with the ancestors of `f`.  Two joined nodes must have
   compatible content ("Cannot join X onto Y"); this is stricter than validity of the splice. *)
\* types of the nodes open at the end of the slice, outermost first
SliceOpenEndTypes(s) ==
  LET M == MatchArr(s.toks) IN
  [j \in 1..s.oe |-> s.toks[M[Len(s.toks) - j + 1]].t]
StopDepth(d, f, t, s) ==
  LET af == StackAt(d, f)
      at == StackAt(d, t)
  IN SetMax({k \in 0..(Len(af) - s.os) : k <= Len(at) /\ \A j \in 1..k : af[j] = at[j]})
JoinsOK(d, f, t, s) ==
  LET af == StackAt(d, f)
      at == StackAt(d, t)
      df == Len(af)
      dt == Len(at)
      extra == df - s.os
      stop == StopDepth(d, f, t, s)
  IN /\ \A j \in 1..s.os : CompatibleContent(s.toks[j].t, d[af[extra + j]].t)
     /\ \A k \in (stop + 1)..dt :
          CompatibleContent(d[at[k]].t, IF k <= extra THEN d[af[k]].t ELSE SliceOpenEndTypes(s)[k - extra])
=============================================================================
