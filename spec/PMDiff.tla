-------------------------------- MODULE PMDiff --------------------------------
(***************************************************************************)
(* Fragment diffing (C20) on flat token sequences.                          *)
(*  DiffStart(a, b): None (-1) iff equal, else the length of the longest    *)
(*    common prefix of the token sequences.                                 *)
(*  DiffEnd(a, b): None iff equal, else the positions after which the two   *)
(*    sequences agree, where a close token only agrees with a close token   *)
(*    of a node with identical markup (the scan only descends into nodes    *)
(*    with identical markup).                                               *)
(***************************************************************************)
EXTENDS PMBase

NoDiff == -1
RECURSIVE LCPFrom(_, _, _)
LCPFrom(a, b, i) ==
  IF i < Len(a) /\ i < Len(b) /\ a[i + 1] = b[i + 1] THEN LCPFrom(a, b, i + 1) ELSE i
DiffStart(a, b) == LET x == Unflag(a)  y == Unflag(b) IN
  IF x = y THEN NoDiff ELSE LCPFrom(x, y, 0)

(* close tokens annotated with the markup of the node they close *)
TypedCloses(d) == LET M == MatchArr(d)  u == Unflag(d) IN
  [i \in 1..Len(d) |-> IF d[i].k = "c" THEN [u[i] EXCEPT !.t = d[M[i]].t, !.a = d[M[i]].a, !.m = d[M[i]].m] ELSE u[i]]
RECURSIVE LCSFrom(_, _, _)
LCSFrom(a, b, n) ==
  IF n < Len(a) /\ n < Len(b) /\ a[Len(a) - n] = b[Len(b) - n] THEN LCSFrom(a, b, n + 1) ELSE n
DiffEnd(a, b) == LET x == TypedCloses(a)  y == TypedCloses(b) IN
  IF Unflag(a) = Unflag(b) THEN <<NoDiff, NoDiff>>
  ELSE LET n == LCSFrom(x, y, 0) IN <<Len(a) - n, Len(b) - n>>
=============================================================================
