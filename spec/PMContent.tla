------------------------------ MODULE PMContent ------------------------------
(***************************************************************************)
(* Content expressions as regular expressions over node type names, with   *)
(* semantics by Antimirov partial derivatives.  An expression is a record  *)
(* [op, ref, args, min, max] (all fields always present):                  *)
(*   eps | name(ref) | seq(args) | choice(args) | star | plus | opt |      *)
(*   range(min, max) with max = -1 for "unbounded".                        *)
(* A name refers to the node type of that name if there is one, otherwise  *)
(* to every node type having it as a group.                                *)
(***************************************************************************)
EXTENDS PMBase

Eps == [op |-> "eps", ref |-> "", args |-> <<>>, min |-> 0, max |-> 0]
MkName(r) == [op |-> "name", ref |-> r, args |-> <<>>, min |-> 0, max |-> 0]
MkOp(o, xs) == [op |-> o, ref |-> "", args |-> xs, min |-> 0, max |-> 0]
MkRange(x, lo, hi) == [op |-> "range", ref |-> "", args |-> <<x>>, min |-> lo, max |-> hi]
Unbounded == -1

GroupMembers(g) == {n \in NodeNames : g \in Range(NT(n).groups)}
AllGroups == UNION {Range(NodeSpecs[i].groups) : i \in 1..Len(NodeSpecs)}
NamesTab == [r \in NodeNames \cup AllGroups |-> IF r \in NodeNames THEN {r} ELSE GroupMembers(r)]
Names(ref) == IF ref \in DOMAIN NamesTab THEN NamesTab[ref] ELSE {}

SeqArgs(x) == IF x.op = "seq" THEN x.args ELSE IF x.op = "eps" THEN <<>> ELSE <<x>>
MkSeq(xs) == IF Len(xs) = 0 THEN Eps ELSE IF Len(xs) = 1 THEN xs[1] ELSE MkOp("seq", xs)
Cat(x, y) == MkSeq(SeqArgs(x) \o SeqArgs(y))

RECURSIVE Nullable(_)
Nullable(e) ==
  CASE e.op = "eps"    -> TRUE
    [] e.op = "name"   -> FALSE
    [] e.op = "seq"    -> \A i \in 1..Len(e.args) : Nullable(e.args[i])
    [] e.op = "choice" -> \E i \in 1..Len(e.args) : Nullable(e.args[i])
    [] e.op = "star"   -> TRUE
    [] e.op = "opt"    -> TRUE
    [] e.op = "plus"   -> Nullable(e.args[1])
    [] e.op = "range"  -> e.min = 0 \/ Nullable(e.args[1])

(* partial derivatives of e with respect to node type name a : a set of expressions *)
RECURSIVE PD(_, _)
PD(e, a) ==
  CASE e.op = "eps"    -> {}
    [] e.op = "name"   -> IF a \in Names(e.ref) THEN {Eps} ELSE {}
    [] e.op = "seq"    ->
         LET h == e.args[1]
             r == MkSeq(Tail(e.args))
         IN {Cat(x, r) : x \in PD(h, a)} \cup (IF Nullable(h) THEN PD(r, a) ELSE {})
    [] e.op = "choice" -> UNION {PD(e.args[i], a) : i \in 1..Len(e.args)}
    [] e.op = "star"   -> {Cat(x, e) : x \in PD(e.args[1], a)}
    [] e.op = "plus"   -> {Cat(x, MkOp("star", e.args)) : x \in PD(e.args[1], a)}
    [] e.op = "opt"    -> PD(e.args[1], a)
    [] e.op = "range"  ->
         IF e.max = 0 THEN {}
         ELSE LET rest == MkRange(e.args[1], Max2(e.min - 1, 0),
                                  IF e.max = Unbounded THEN Unbounded ELSE e.max - 1)
                  rest2 == IF rest.max = 0 THEN Eps
                           ELSE IF rest.min = 0 /\ rest.max = Unbounded THEN MkOp("star", e.args)
                           ELSE rest
              IN {Cat(x, rest2) : x \in PD(e.args[1], a)}

(* residual-set step *)
Step1(S, a) == UNION {PD(e, a) : e \in S}
RECURSIVE Run(_, _)
Run(S, w) == IF w = <<>> \/ S = {} THEN S ELSE Run(Step1(S, Head(w)), Tail(w))
Accepting(S) == \E e \in S : Nullable(e)
Matches(e, w) == Accepting(Run({e}, w))
Alive(e, w) == Run({e}, w) # {}

(* first symbols *)
RECURSIVE First(_)
First(e) ==
  CASE e.op = "eps"    -> {}
    [] e.op = "name"   -> Names(e.ref)
    [] e.op = "seq"    -> First(e.args[1]) \cup
                          (IF Nullable(e.args[1]) THEN First(MkSeq(Tail(e.args))) ELSE {})
    [] e.op = "choice" -> UNION {First(e.args[i]) : i \in 1..Len(e.args)}
    [] OTHER           -> First(e.args[1])
FirstOfSet(S) == UNION {First(e) : e \in S}

(* the names an expression mentions *)
RECURSIVE Mentioned(_)
Mentioned(e) ==
  IF e.op = "name" THEN {e.ref}
  ELSE UNION {Mentioned(e.args[i]) : i \in 1..Len(e.args)}

(* Reachable residual sets (the derivative automaton), by exploration *)
RECURSIVE Explore(_, _, _)
Explore(todo, seen, alphabet) ==
  IF todo = {} THEN seen
  ELSE LET S == CHOOSE s \in todo : TRUE
           nxt == {Step1(S, a) : a \in alphabet} \ {{}}
       IN Explore((todo \cup nxt) \ (seen \cup {S}), seen \cup {S}, alphabet)
ReachStates(e) == Explore({{e}}, {}, NodeNames)

(* Dead-end rule: a reachable, non-accepting residual set all of whose first
   symbols are non-generatable (text or with required attributes) *)
DeadEnd(S) == ~Accepting(S) /\ \A a \in FirstOfSet(S) : ~Generatable(a)
HasDeadEnd(e) == \E S \in ReachStates(e) : DeadEnd(S)

(* well-formedness rules for a parsed expression over the schema's names *)
UnknownNames(e) == {r \in Mentioned(e) : Names(r) = {}}
AllTypes(e) == UNION {Names(r) : r \in Mentioned(e)}
MixesInline(e) == \E a, b \in AllTypes(e) : IsInlineType(a) /\ ~IsInlineType(b)
ExprOK(e) == UnknownNames(e) = {} /\ ~MixesInline(e) /\ ~HasDeadEnd(e)

(* content of a node type *)
ContentOf(n) == NT(n).content
InlineContent(n) == \E a \in First(ContentOf(n)) : IsInlineType(a)
IsTextblock(n) == ~IsInlineType(n) /\ InlineContent(n)
ValidTypeSeq(n, w) == Matches(ContentOf(n), w)
(* ContentMatch.compatible: the start states share a first symbol *)
CompatibleContent(a, b) == a = b \/ First(ContentOf(a)) \cap First(ContentOf(b)) # {}

(* ---------------- filling (C15) ---------------- *)
(* Is there a sequence of generatable types leading from residual set S to a
   set from which `after` can be run (and, if toEnd, accepted)?  Least fixed
   point over residual sets through generatable symbols. *)
FinishOK(S, after, toEnd) ==
  LET R == Run(S, after) IN R # {} /\ (toEnd => Accepting(R))
RECURSIVE FillReach(_, _)
FillReach(todo, seen) ==
  IF todo = {} THEN seen
  ELSE LET S == CHOOSE s \in todo : TRUE
           nxt == {Step1(S, a) : a \in {n \in NodeNames : Generatable(n)}} \ {{}}
       IN FillReach((todo \cup nxt) \ (seen \cup {S}), seen \cup {S})
FillExists(S, after, toEnd) == \E R \in FillReach({S}, {}) : FinishOK(R, after, toEnd)
IsFill(S, fill, after, toEnd) ==
  /\ \A i \in 1..Len(fill) : Generatable(fill[i])
  /\ FinishOK(Run(S, fill), after, toEnd)

(* ---------------- wrapping (C15) ---------------- *)
(* ws is a chain of wrapper types fitting node type `target` at residual set S *)
CanWrapType(n) == ~IsLeafType(n) /\ ~HasReqAttrs(n)
IsWrapChain(S, ws, target) ==
  /\ \A i \in 1..Len(ws) : ws[i] \in NodeNames /\ CanWrapType(ws[i])
  /\ IF Len(ws) = 0 THEN Step1(S, target) # {}
     ELSE /\ Step1(S, ws[1]) # {}
          /\ \A i \in 1..(Len(ws) - 1) : Matches(ContentOf(ws[i]), <<ws[i + 1]>>)
          /\ Alive(ContentOf(Last(ws)), <<target>>)
(* breadth-first search over wrapper types: shortest chain length, or -1 *)
RECURSIVE WrapBFS(_, _, _, _)
WrapBFS(frontier, seen, target, n) ==
  \* frontier: set of wrapper type names whose content start is being examined at level n
  IF frontier = {} THEN -1
  ELSE IF \E w \in frontier : Alive(ContentOf(w), <<target>>) THEN n
  ELSE LET nxt == {v \in NodeNames \ seen : CanWrapType(v) /\
                     \E w \in frontier : Matches(ContentOf(w), <<v>>)}
       IN WrapBFS(nxt, seen \cup nxt, target, n + 1)
ShortestWrapLen(S, target) ==
  IF Step1(S, target) # {} THEN 0
  ELSE LET f0 == {v \in NodeNames : CanWrapType(v) /\ Step1(S, v) # {}}
       IN WrapBFS(f0, f0, target, 1)
=============================================================================
