---------------------------- MODULE PMExprSyntax ----------------------------
(***************************************************************************)
(* The concrete syntax of content expressions (C06): lexer and recursive-    *)
(* descent recogniser over a string given as a sequence of code points,     *)
(* producing the expression trees of PMContent.  Structured like the code   *)
(* (TokenStream + parse_expr / parse_expr_seq / parse_expr_subscript /      *)
(* parse_expr_atom / parse_expr_range), one operator per function.          *)
(*                                                                          *)
(*   expr      ::= seq ("|" seq)*                                           *)
(*   seq       ::= subscript+            (until ")" , "|" or the end)       *)
(*   subscript ::= atom ("+" | "*" | "?" | "{" num ("," num?)? "}")*        *)
(*   atom      ::= "(" expr ")" | word                                      *)
(*                                                                          *)
(* Tokens: maximal runs of word characters, or single other characters;     *)
(* white space separates tokens and is dropped.  Strings are limited to     *)
(* ASCII here (the harness only produces such).  A word is turned into the  *)
(* name it spells through Input.words (the names and groups the schema's    *)
(* text declares, and the few other words the batches use); any other word  *)
(* stands for an unknown name.                                              *)
(***************************************************************************)
EXTENDS PMContent

IsDigit(c) == c >= 48 /\ c <= 57
IsWordChar(c) == IsDigit(c) \/ (c >= 65 /\ c <= 90) \/ (c >= 97 /\ c <= 122) \/ c = 95
IsSpace(c) == c = 32 \/ (c >= 9 /\ c <= 13) \/ (c >= 28 /\ c <= 31)
AsciiOnly(cs) == \A i \in 1..Len(cs) : cs[i] < 128

WordEnd(cs, i) == SetMax({j \in i..Len(cs) : \A x \in i..j : IsWordChar(cs[x])})
RECURSIVE LexFrom(_, _, _)
LexFrom(cs, i, acc) ==
  IF i > Len(cs) THEN acc
  ELSE IF IsWordChar(cs[i]) THEN
       LET j == WordEnd(cs, i) IN LexFrom(cs, j + 1, Append(acc, [k |-> "w", cs |-> SubSeq(cs, i, j)]))
  ELSE IF IsSpace(cs[i]) THEN LexFrom(cs, i + 1, acc)
  ELSE LexFrom(cs, i + 1, Append(acc, [k |-> "p", cs |-> <<cs[i]>>]))
Lex(cs) == LexFrom(cs, 1, <<>>)

EndTok == [k |-> "end", cs |-> <<>>]
Tok(ts, p) == IF p <= Len(ts) THEN ts[p] ELSE EndTok
IsP(t, c) == t.k = "p" /\ t.cs = <<c>>
LPar == 40
RPar == 41
Bar == 124
Plus == 43
Star == 42
Quest == 63
LBrace == 123
RBrace == 125
Comma == 44

(* words -> names *)
WordTab == Input.words          \* sequence of [cs |-> code points, s |-> string]
UnknownName == "?unknown"
NameOf(cs) == IF \E i \in 1..Len(WordTab) : WordTab[i].cs = cs
              THEN WordTab[CHOOSE i \in 1..Len(WordTab) : WordTab[i].cs = cs].s
              ELSE UnknownName
AllDigits(cs) == \A i \in 1..Len(cs) : IsDigit(cs[i])
RECURSIVE NumVal(_)
NumVal(cs) == IF cs = <<>> THEN 0 ELSE 10 * NumVal(SubSeq(cs, 1, Len(cs) - 1)) + (cs[Len(cs)] - 48)

Bad == [ok |-> FALSE, e |-> Eps, p |-> 0]
Good(e, p) == [ok |-> TRUE, e |-> e, p |-> p]

RECURSIVE PExpr(_, _), PAlts(_, _, _), PSeq(_, _), PItems(_, _, _), PSub(_, _), PPost(_, _, _), PAtom(_, _)
PNum(ts, p) ==
  LET t == Tok(ts, p) IN
  IF t.k = "w" /\ AllDigits(t.cs) /\ Len(t.cs) <= 6 THEN [ok |-> TRUE, n |-> NumVal(t.cs), p |-> p + 1]
  ELSE [ok |-> FALSE, n |-> 0, p |-> 0]
PAtom(ts, p) ==
  LET t == Tok(ts, p) IN
  IF IsP(t, LPar) THEN
       LET r == PExpr(ts, p + 1) IN
       IF r.ok /\ IsP(Tok(ts, r.p), RPar) THEN Good(r.e, r.p + 1) ELSE Bad
  ELSE IF t.k = "w" THEN Good(MkName(NameOf(t.cs)), p + 1)
  ELSE Bad
PPost(ts, e, p) ==
  LET t == Tok(ts, p) IN
  IF IsP(t, Plus) THEN PPost(ts, MkOp("plus", <<e>>), p + 1)
  ELSE IF IsP(t, Star) THEN PPost(ts, MkOp("star", <<e>>), p + 1)
  ELSE IF IsP(t, Quest) THEN PPost(ts, MkOp("opt", <<e>>), p + 1)
  ELSE IF IsP(t, LBrace) THEN
       LET lo == PNum(ts, p + 1) IN
       IF ~lo.ok THEN Bad
       ELSE IF IsP(Tok(ts, lo.p), Comma) THEN
              IF IsP(Tok(ts, lo.p + 1), RBrace) THEN PPost(ts, MkRange(e, lo.n, -1), lo.p + 2)
              ELSE LET hi == PNum(ts, lo.p + 1) IN
                   IF hi.ok /\ IsP(Tok(ts, hi.p), RBrace) THEN PPost(ts, MkRange(e, lo.n, hi.n), hi.p + 1) ELSE Bad
       ELSE IF IsP(Tok(ts, lo.p), RBrace) THEN PPost(ts, MkRange(e, lo.n, lo.n), lo.p + 1)
       ELSE Bad
  ELSE Good(e, p)
PSub(ts, p) == LET a == PAtom(ts, p) IN IF a.ok THEN PPost(ts, a.e, a.p) ELSE Bad
PItems(ts, p, acc) ==
  LET r == PSub(ts, p) IN
  IF ~r.ok THEN [ok |-> FALSE, items |-> acc, p |-> 0]
  ELSE LET t == Tok(ts, r.p) IN
       IF t.k = "end" \/ IsP(t, RPar) \/ IsP(t, Bar) THEN [ok |-> TRUE, items |-> Append(acc, r.e), p |-> r.p]
       ELSE PItems(ts, r.p, Append(acc, r.e))
PSeq(ts, p) ==
  LET r == PItems(ts, p, <<>>) IN
  IF ~r.ok THEN Bad ELSE Good(IF Len(r.items) = 1 THEN r.items[1] ELSE MkOp("seq", r.items), r.p)
PAlts(ts, p, acc) ==
  LET r == PSeq(ts, p) IN
  IF ~r.ok THEN [ok |-> FALSE, items |-> acc, p |-> 0]
  ELSE IF IsP(Tok(ts, r.p), Bar) THEN PAlts(ts, r.p + 1, Append(acc, r.e))
  ELSE [ok |-> TRUE, items |-> Append(acc, r.e), p |-> r.p]
PExpr(ts, p) ==
  LET r == PAlts(ts, p, <<>>) IN
  IF ~r.ok THEN Bad ELSE Good(IF Len(r.items) = 1 THEN r.items[1] ELSE MkOp("choice", r.items), r.p)

(* the whole string: empty (or blank) = the empty expression; otherwise one expr and nothing after it *)
Parse(cs) ==
  LET ts == Lex(cs) IN
  IF ts = <<>> THEN [ok |-> TRUE, e |-> Eps]
  ELSE LET r == PExpr(ts, 1) IN
       IF r.ok /\ r.p = Len(ts) + 1 THEN [ok |-> TRUE, e |-> r.e] ELSE [ok |-> FALSE, e |-> Eps]

(* ---- printing (used for the round-trip law of the recogniser) ---- *)
CharsOf(name) == IF \E i \in 1..Len(WordTab) : WordTab[i].s = name
                 THEN WordTab[CHOOSE i \in 1..Len(WordTab) : WordTab[i].s = name].cs
                 ELSE <<63>>
RECURSIVE Digits(_)
Digits(n) == IF n < 10 THEN <<48 + n>> ELSE Digits(n \div 10) \o <<48 + (n % 10)>>
RECURSIVE Render(_), Joined(_, _, _)
Paren(e, ops) == IF e.op \in ops THEN <<LPar>> \o Render(e) \o <<RPar>> ELSE Render(e)
Joined(xs, sep, ops) ==
  IF Len(xs) = 1 THEN Paren(xs[1], ops)
  ELSE Paren(xs[1], ops) \o sep \o Joined(Tail(xs), sep, ops)
Render(e) ==
  CASE e.op = "eps" -> <<>>
    [] e.op = "name" -> CharsOf(e.ref)
    [] e.op = "seq" -> Joined(e.args, <<32>>, {"choice", "seq"})
    [] e.op = "choice" -> Joined(e.args, <<32, Bar, 32>>, {"choice"})
    [] e.op = "star" -> Paren(e.args[1], {"seq", "choice"}) \o <<Star>>
    [] e.op = "plus" -> Paren(e.args[1], {"seq", "choice"}) \o <<Plus>>
    [] e.op = "opt" -> Paren(e.args[1], {"seq", "choice"}) \o <<Quest>>
    [] e.op = "range" ->
         Paren(e.args[1], {"seq", "choice"}) \o <<LBrace>> \o Digits(e.min)
         \o (IF e.max = e.min THEN <<>> ELSE IF e.max = -1 THEN <<Comma>> ELSE <<Comma>> \o Digits(e.max))
         \o <<RBrace>>
=============================================================================
