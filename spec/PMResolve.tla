------------------------------ MODULE PMResolve ------------------------------
(***************************************************************************)
(* Resolved positions and traversal on the flat token picture (C09).        *)
(* A child occupying tokens s..e starts at position s-1 and ends at e.      *)
(***************************************************************************)
EXTENDS PMSchema

None == [none |-> TRUE]

(* everything the accessors need, computed once per (document, position) *)
Ctx(d, p) ==
  LET M == MatchArr(d)
      anc == StackAt(d, p)
      dep == Len(anc) IN
  [M |-> M, anc |-> anc, depth |-> dep]
OpenOf(c, k) == IF k = 0 THEN 0 ELSE c.anc[k]
RStart(d, c, k) == OpenOf(c, k)
REnd(d, c, k) == IF k = 0 THEN Len(d) ELSE c.M[c.anc[k]] - 1
RBefore(d, c, k) == RStart(d, c, k) - 1
RAfter(d, c, k) == REnd(d, c, k) + 1
RKids(d, c, k) == KidsOf(d, c.M, OpenOf(c, k))
RType(d, c, k) == TypeOfOpen(d, OpenOf(c, k))
RIndex(d, c, k, p) ==
  LET lim == IF k = c.depth THEN p ELSE c.anc[k + 1] - 1
      kids == RKids(d, c, k) IN
  Cardinality({j \in 1..Len(kids) : kids[j].e <= lim})
(* the text child of the innermost parent that strictly contains p, or 0 *)
TextKidAt(d, c, p) ==
  LET kids == RKids(d, c, c.depth)
      hit == {j \in 1..Len(kids) : kids[j].t = "text" /\ kids[j].s - 1 < p /\ p < kids[j].e} IN
  IF hit = {} THEN 0 ELSE CHOOSE j \in hit : TRUE
RTextOffset(d, c, p) ==
  LET j == TextKidAt(d, c, p) IN IF j = 0 THEN 0 ELSE p - (RKids(d, c, c.depth)[j].s - 1)
RIndexAfter(d, c, k, p) == RIndex(d, c, k, p) + (IF k = c.depth /\ RTextOffset(d, c, p) = 0 THEN 0 ELSE 1)
RParentOffset(d, c, p) == p - RStart(d, c, c.depth)

KidToks(d, kid) == SubSeq(d, kid.s, kid.e)
RNodeAfter(d, c, p) ==
  LET kids == RKids(d, c, c.depth)
      idx == RIndex(d, c, c.depth, p)
      j == TextKidAt(d, c, p) IN
  IF j # 0 THEN [none |-> FALSE, toks |-> Canonize(SubSeq(d, p + 1, kids[j].e))]
  ELSE IF idx = Len(kids) THEN [none |-> TRUE, toks |-> <<>>]
  ELSE [none |-> FALSE, toks |-> Canonize(KidToks(d, kids[idx + 1]))]
RNodeBefore(d, c, p) ==
  LET kids == RKids(d, c, c.depth)
      idx == RIndex(d, c, c.depth, p)
      j == TextKidAt(d, c, p) IN
  IF j # 0 THEN [none |-> FALSE, toks |-> Canonize(SubSeq(d, kids[j].s, p))]
  ELSE IF idx = 0 THEN [none |-> TRUE, toks |-> <<>>]
  ELSE [none |-> FALSE, toks |-> Canonize(KidToks(d, kids[idx]))]

NonInclusive(mt) == ~MT(mt).inclusive
DropNonInclusive(ms, hasOther, otherMarks) ==
  SelectSeq(ms, LAMBDA x : ~(NonInclusive(x.t) /\ (~hasOther \/ ~IsInSet(x, otherMarks))))
(* ResolvedPos.marks() *)
MarksAt(d, c, p) ==
  LET kids == RKids(d, c, c.depth)
      idx == RIndex(d, c, c.depth, p)
      j == TextKidAt(d, c, p) IN
  IF Len(kids) = 0 THEN <<>>
  ELSE IF j # 0 THEN kids[j].m
  ELSE IF idx > 0
       THEN DropNonInclusive(kids[idx].m, idx < Len(kids), IF idx < Len(kids) THEN kids[idx + 1].m ELSE <<>>)
       ELSE DropNonInclusive(kids[1].m, FALSE, <<>>)
(* ResolvedPos.marks_across(end): None unless an inline node follows p *)
MarksAcross(d, p, q) ==
  LET c == Ctx(d, p)
      kids == RKids(d, c, c.depth)
      idx == IF TextKidAt(d, c, p) # 0 THEN TextKidAt(d, c, p) - 1 ELSE RIndex(d, c, c.depth, p)
      c2 == Ctx(d, q)
      kids2 == RKids(d, c2, c2.depth)
      idx2 == IF TextKidAt(d, c2, q) # 0 THEN TextKidAt(d, c2, q) - 1 ELSE RIndex(d, c2, c2.depth, q) IN
  IF idx >= Len(kids) \/ ~IsInlineType(kids[idx + 1].t) THEN [none |-> TRUE, marks |-> <<>>]
  ELSE [none |-> FALSE,
        marks |-> DropNonInclusive(kids[idx + 1].m, idx2 < Len(kids2), IF idx2 < Len(kids2) THEN kids2[idx2 + 1].m ELSE <<>>)]

RSharedDepth(d, c, q) ==
  LET ok == {k \in 1..c.depth : RStart(d, c, k) <= q /\ REnd(d, c, k) >= q} IN
  IF ok = {} THEN 0 ELSE SetMax(ok)
(* block_range(other) without predicate; p <= q required (the library swaps) *)
RBlockRange(d, p, q) ==
  LET c == Ctx(d, p)
      c2 == Ctx(d, q)
      d0 == c.depth - (IF InlineContent(RType(d, c, c.depth)) \/ p = q THEN 1 ELSE 0)
      ok == {k \in 0..d0 : q <= REnd(d, c, k)} IN
  IF ok = {} THEN [none |-> TRUE]
  ELSE LET k == SetMax(ok) IN
       [none |-> FALSE, depth |-> k,
        start |-> IF k + 1 = c.depth + 1 THEN p ELSE RBefore(d, c, k + 1),
        end |-> IF k + 1 = c2.depth + 1 THEN q ELSE RAfter(d, c2, k + 1),
        startIndex |-> RIndex(d, c, k, p),
        endIndex |-> RIndexAfter(d, c2, k, q)]

(* ---- lookups on a node's content (the root content d) ---- *)
(* Node.node_at(pos): the node starting at pos, or the text node around it *)
RECURSIVE NodeAtIn(_, _, _, _, _)
NodeAtIn(d, M, lo, hi, p) ==
  \* content tokens lo..hi, p absolute position
  LET kids == Kids(d, M, lo, hi)
      hit == {j \in 1..Len(kids) : kids[j].s - 1 <= p /\ p < kids[j].e} IN
  IF hit = {} THEN [none |-> TRUE, toks |-> <<>>]
  ELSE LET kid == kids[CHOOSE j \in hit : TRUE] IN
       IF kid.s - 1 = p \/ kid.t = "text" THEN [none |-> FALSE, toks |-> Canonize(SubSeq(d, kid.s, kid.e))]
       ELSE NodeAtIn(d, M, kid.s + 1, kid.e - 1, p)
NodeAt(d, p) == NodeAtIn(d, MatchArr(d), 1, Len(d), p)

(* Fragment.find_index(pos, round) on the root content: [index, offset] *)
FindIndex(d, p, round) ==
  LET kids == Kids(d, MatchArr(d), 1, Len(d)) IN
  IF p = 0 THEN <<0, 0>>
  ELSE IF p = Len(d) THEN <<Len(kids), p>>
  ELSE LET j == CHOOSE j \in 1..Len(kids) : kids[j].e >= p /\ (j = 1 \/ kids[j - 1].e < p) IN
       IF kids[j].e = p \/ round > 0 THEN <<j, kids[j].e>> ELSE <<j - 1, kids[j].s - 1>>

(* ---- traversal ---- *)
(* nodes_between(from, to) with an optional pruned type (callback returns False on it):
   sequence of [pos, t, index, parent] in visiting order; parent = type name of the parent node *)
RECURSIVE Walk(_, _, _, _, _, _, _, _)
Walk(d, M, lo, hi, from, to, prune, parentType) ==
  LET kids == Kids(d, M, lo, hi)
      RECURSIVE go(_)
      go(j) ==
        IF j > Len(kids) THEN <<>>
        ELSE LET kid == kids[j]
                 pos == kid.s - 1 IN
             IF pos >= to THEN <<>>
             ELSE IF kid.e > from
                  THEN << [pos |-> pos, t |-> kid.t, index |-> j - 1, parent |-> parentType] >>
                       \o (IF kid.t # prune /\ kid.t # "text" /\ d[kid.s].k = "o" /\ kid.e - kid.s > 1
                           THEN Walk(d, M, kid.s + 1, kid.e - 1, from, to, prune, kid.t)
                           ELSE <<>>)
                       \o go(j + 1)
                  ELSE go(j + 1)
  IN go(1)
NodesBetween(d, from, to, prune) == Walk(d, MatchArr(d), 1, Len(d), from, to, prune, TopType)

RangeHasMark(d, from, to, mk, byType) ==
  to > from /\ \E i \in 1..Len(d) : d[i].k # "c" /\ (IF byType THEN TypeInSet(mk.t, d[i].m) ELSE IsInSet(mk, d[i].m))
     /\ LET M == MatchArr(d)
            s == i - 1
            e == IF d[i].k = "o" THEN M[i] ELSE i IN
        \* the node (or, for text, the unit) overlaps the range and every ancestor does too
        s < to /\ e > from

(* text_between(from, to, sep, leaf): sequence of code units; sep and leaf are unit sequences *)
RECURSIVE TextFold(_, _, _, _, _, _, _, _)
TextFold(d, vis, k, from, to, sep, leaf, st) ==
  \* st = [out, separated]
  IF k > Len(vis) THEN st.out
  ELSE LET v == vis[k] IN
    IF v.t = "text"
    THEN LET M == MatchArr(d)
             s == v.pos + 1
             e == RunEnd(d, s, Len(d))
             a == Max2(from, v.pos) + 1
             b == Min2(to, e)
             units == [x \in 1..(IF b >= a THEN b - a + 1 ELSE 0) |-> d[a + x - 1].c] IN
         TextFold(d, vis, k + 1, from, to, sep, leaf, [out |-> st.out \o units, separated |-> sep = <<>>])
    ELSE IF IsLeafType(v.t)
    THEN TextFold(d, vis, k + 1, from, to, sep, leaf, [out |-> st.out \o leaf, separated |-> sep = <<>>])
    ELSE IF ~st.separated /\ ~IsInlineType(v.t)
    THEN TextFold(d, vis, k + 1, from, to, sep, leaf, [out |-> st.out \o sep, separated |-> TRUE])
    ELSE TextFold(d, vis, k + 1, from, to, sep, leaf, st)
TextBetween(d, from, to, sep, leaf) ==
  TextFold(d, NodesBetween(d, from, to, ""), 1, from, to, sep, leaf, [out |-> <<>>, separated |-> TRUE])

(* child_after / child_before on the root content *)
ChildAfter(d, p) ==
  LET fi == FindIndex(d, p, -1)
      kids == Kids(d, MatchArr(d), 1, Len(d)) IN
  [index |-> fi[1], offset |-> fi[2],
   node |-> IF fi[1] < Len(kids) THEN [none |-> FALSE, toks |-> Canonize(KidToks(d, kids[fi[1] + 1]))]
            ELSE [none |-> TRUE, toks |-> <<>>]]
ChildBefore(d, p) ==
  LET fi == FindIndex(d, p, -1)
      kids == Kids(d, MatchArr(d), 1, Len(d)) IN
  IF p = 0 THEN [index |-> 0, offset |-> 0, node |-> [none |-> TRUE, toks |-> <<>>]]
  ELSE IF fi[2] < p
  THEN [index |-> fi[1], offset |-> fi[2], node |-> [none |-> FALSE, toks |-> Canonize(KidToks(d, kids[fi[1] + 1]))]]
  ELSE [index |-> fi[1] - 1, offset |-> kids[fi[1]].s - 1, node |-> [none |-> FALSE, toks |-> Canonize(KidToks(d, kids[fi[1]]))]]
=============================================================================
