"""Independent recursive-descent parser for content expressions (harness side).

Produces the uniform AST used by spec/PMContent.tla:
  {"op": eps|name|seq|choice|star|plus|opt|range, "ref": str, "args": [...], "min": int, "max": int}
It only parses; names are *not* resolved here (the specification does that).
"""
from __future__ import annotations

import re


class ExprSyntaxError(Exception):
    pass


def _n(op, ref="", args=None, lo=0, hi=0):
    return {"op": op, "ref": ref, "args": args or [], "min": lo, "max": hi}


def tokenize(s: str):
    return [t for t in re.findall(r"\w+|\W", s) if t.strip()]


def parse(s: str):
    toks = tokenize(s)
    if not toks:
        return _n("eps")
    pos = 0

    def peek():
        return toks[pos] if pos < len(toks) else None

    def eat(t):
        nonlocal pos
        if peek() == t:
            pos += 1
            return True
        return False

    def expr():
        alts = [seq()]
        while eat("|"):
            alts.append(seq())
        return alts[0] if len(alts) == 1 else _n("choice", args=alts)

    def seq():
        items = [sub()]
        while peek() is not None and peek() not in (")", "|"):
            items.append(sub())
        return items[0] if len(items) == 1 else _n("seq", args=items)

    def num():
        nonlocal pos
        t = peek()
        if t is None or not re.fullmatch(r"\d+", t):
            raise ExprSyntaxError(f"expected number, got {t!r}")
        pos += 1
        return int(t)

    def sub():
        e = atom()
        while True:
            if eat("+"):
                e = _n("plus", args=[e])
            elif eat("*"):
                e = _n("star", args=[e])
            elif eat("?"):
                e = _n("opt", args=[e])
            elif eat("{"):
                lo = num()
                hi = lo
                if eat(","):
                    hi = -1 if peek() == "}" else num()
                if not eat("}"):
                    raise ExprSyntaxError("unclosed range")
                e = _n("range", args=[e], lo=lo, hi=hi)
            else:
                return e

    def atom():
        nonlocal pos
        if eat("("):
            e = expr()
            if not eat(")"):
                raise ExprSyntaxError("missing )")
            return e
        t = peek()
        if t is None or not re.fullmatch(r"\w+", t):
            raise ExprSyntaxError(f"unexpected token {t!r}")
        pos += 1
        return _n("name", ref=t)

    e = expr()
    if pos != len(toks):
        raise ExprSyntaxError("trailing text")
    return e


def render(e) -> str:
    """Print an AST back as a content expression (used for round-trip self-checks)."""
    op = e["op"]
    if op == "eps":
        return ""
    if op == "name":
        return e["ref"]
    if op == "seq":
        return " ".join(_paren(a, ("choice",)) for a in e["args"])
    if op == "choice":
        return " | ".join(_paren(a, ()) for a in e["args"])
    inner = _paren(e["args"][0], ("seq", "choice"))
    if op == "star":
        return inner + "*"
    if op == "plus":
        return inner + "+"
    if op == "opt":
        return inner + "?"
    if op == "range":
        if e["max"] == e["min"]:
            return inner + "{%d}" % e["min"]
        if e["max"] == -1:
            return inner + "{%d,}" % e["min"]
        return inner + "{%d,%d}" % (e["min"], e["max"])
    raise ValueError(op)


def _paren(e, ops):
    s = render(e)
    return "(" + s + ")" if e["op"] in ops else s


def words_table(strings, extra=()):
    """Input.words for spec/PMExprSyntax.tla: every word (maximal run of word characters) of the given
    strings with its code points - a pure encoding table (TLA+ strings cannot be taken apart in TLC);
    the lexing and parsing are done by the specification."""
    seen = {}
    for s in list(strings) + list(extra):
        for w in re.findall(r"\w+", s):
            if w not in seen:
                seen[w] = {"cs": [ord(c) for c in w], "s": w}
    return list(seen.values())


def chars(s):
    return [ord(c) for c in s]
