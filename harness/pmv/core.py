"""Check framework: verdict bookkeeping, known findings, replay files, evidence."""
from __future__ import annotations

import hashlib
import importlib
import json
import os
import sys
import time
from dataclasses import dataclass, field

from . import tlc

VERIF = tlc.VERIF
_scratch = "PMV_REPO" in os.environ      # mutant evaluation against a scratch worktree: keep evidence/ untouched
EVIDENCE = os.path.join(VERIF, ".scratch-evidence" if _scratch else "evidence")
REPLAYS = os.path.join(VERIF, ".scratch-replays" if _scratch else "replays")
KNOWN = os.path.join(VERIF, "known_findings.json")

sys.path.insert(0, os.environ.get("PMV_REPO", "/repo"))


@dataclass
class Violation:
    """One contract failure: `sig` identifies the failing call site / clause,
    `replay` is a self-contained description of the failing input."""
    clause: str
    api: str
    detail: str
    replay: dict
    sig: dict = field(default_factory=dict)

    def signature(self) -> dict:
        s = {"api": self.api, "clause": self.clause}
        s.update(self.sig)
        return s


class Stats:
    """Per-run coverage bookkeeping that ends up in the evidence file."""

    def __init__(self):
        self.states = 0
        self.transitions = 0
        self.traces = 0           # events / behaviours judged against the implementation
        self.evaluations = 0
        self.distinct = set()     # hashes of distinct non-trivial cases
        self.samples = []
        self.counts = {}          # per action / clause counters
        self.skipped = 0
        self.drift = 0
        self.drift_samples = []
        self.tlc_cmds = []
        self.notes = []
        self.crashes = []         # events on which TLC could not evaluate the specification
        self.exhaustive = False
        self.bounds = {}

    def count(self, key, n=1):
        self.counts[key] = self.counts.get(key, 0) + n

    def add_tlc(self, res: tlc.TLCResult, what: str):
        self.states += res.distinct
        self.transitions += res.states
        self.tlc_cmds.append(f"{what}: {res.cmd.split('tlc2.TLC', 1)[-1].strip()} "
                             f"[{res.distinct} distinct / {res.states} generated, {res.wall_s:.1f}s]")

    def case(self, obj, nontrivial=True):
        self.evaluations += 1
        if nontrivial:
            h = hashlib.sha1(json.dumps(obj, sort_keys=True, default=str).encode()).hexdigest()[:16]
            self.distinct.add(h)
        if len(self.samples) < 4:
            self.samples.append(obj)


def vacuity(out, msg):
    """A vacuity gate missed: machinery failure (exit 2) - unless violations were found, which are
    reported first (a change that breaks the code under test often also empties a gate)."""
    if out:
        print("NOTE: " + msg + " (not enforced: violations found)")
        return
    raise MachineryError(msg)


class MachineryError(Exception):
    """The machinery itself failed (TLC crashed, vacuity gate missed): exit 2."""


def load_known():
    if not os.path.exists(KNOWN):
        return []
    with open(KNOWN) as f:
        return json.load(f)


def matches(entry_sig: dict, sig: dict, inputs=None) -> bool:
    """A known finding matches a violation when every key of its signature agrees (a key with value null
    must be absent from the violation).  An entry with an `inputs` list is pinned to exactly those
    inputs (hashes computed by the check for its seed-independent stage)."""
    if not all(sig.get(k) == v for k, v in entry_sig.items()):
        return False
    return inputs is None or sig.get("pinned") in inputs


def write_replay(pid: str, v: Violation) -> str:
    d = os.path.join(REPLAYS, pid)
    os.makedirs(d, exist_ok=True)
    body = {"property": pid, "clause": v.clause, "api": v.api, "detail": v.detail,
            "signature": v.signature(), "replay": v.replay}
    h = hashlib.sha1(json.dumps(body, sort_keys=True, default=str).encode()).hexdigest()[:12]
    path = os.path.join(d, f"{v.clause}-{h}.json")
    with open(path, "w") as f:
        json.dump(body, f, indent=1, default=str)
    return path


def finish(pid: str, tier: str, seed: int, stats: Stats, violations: list, t0: float,
           level: str = "model_checking", rule: str = "", assumptions=None) -> int:
    """Classify violations against known findings, write evidence, print the
    verdict lines and return the exit status."""
    if stats.crashes:
        # the specification could not be evaluated on some recorded events: a machinery failure - unless
        # violations were found as well (broken code produces data that breaks the evaluation too)
        if not violations:
            raise MachineryError("TLC could not evaluate the specification on recorded events: " + " | ".join(stats.crashes[:3]))
        print(f"NOTE: {len(stats.crashes)} event(s) could not be evaluated by TLC (first: {stats.crashes[0][:200]}); violations found, reported first")
        stats.notes.append(f"{len(stats.crashes)} events not evaluated (TLC evaluation error)")
    known = [e for e in load_known() if e.get("property") == pid and e.get("status") == "known"]
    hit = {}
    new = []
    for v in violations:
        sig = v.signature()
        for i, e in enumerate(known):
            if matches(e["signature"], sig, e.get("inputs")):
                hit.setdefault(i, []).append(v)
                break
        else:
            new.append(v)
    for i, vs in hit.items():
        print(f"KNOWN-FINDING: property={pid} {known[i]['what']} ({len(vs)} occurrence(s) this run)")
    per_sig = {}
    for v in new:
        key = json.dumps(v.signature(), sort_keys=True)
        per_sig[key] = per_sig.get(key, 0) + 1
        if per_sig[key] > 3:          # at most three replay files per distinct signature
            continue
        path = write_replay(pid, v)
        print(f"VIOLATION property={pid} replay={path}")
        print(f"  clause={v.clause} api={v.api} {v.detail[:300]}")
    for key, n in per_sig.items():
        if n > 3:
            print(f"  ... {n - 3} more violation(s) with signature {key}")
    cov = {
        "states": max(stats.states, 0),
        "transitions": max(stats.transitions, 0),
        "traces_validated_against_impl": stats.traces,
        "samples": stats.samples[:4] or [{"note": "no sample recorded"}],
        "evaluations": stats.evaluations,
        "distinct_nontrivial": len(stats.distinct),
        "rule": rule,
        "exhaustive": stats.exhaustive,
        "per_action": stats.counts,
        "skipped_outside_quantifier": stats.skipped,
        "drift": stats.drift,
        "drift_samples": stats.drift_samples[:5],
        "bounds": stats.bounds,
        "checker_cmd": "; ".join(stats.tlc_cmds)[:4000],
        "known_findings_hit": [known[i]["what"] for i in hit],
        "notes": stats.notes,
    }
    ev = {
        "property_id": pid, "tier": tier, "seed": seed, "level": level,
        "coverage": cov,
        "assumptions": assumptions or [],
        "wall_s": round(time.time() - t0, 2),
        "violations": len(new),
    }
    os.makedirs(EVIDENCE, exist_ok=True)
    with open(os.path.join(EVIDENCE, f"{pid}.json"), "w") as f:
        json.dump(ev, f, indent=1, default=str)
    print(f"{pid} {tier}: states={cov['states']} transitions={cov['transitions']} "
          f"impl_events={stats.traces} distinct={len(stats.distinct)} skipped={stats.skipped} "
          f"drift={stats.drift} violations={len(new)} known={sum(len(v) for v in hit.values())} "
          f"wall={ev['wall_s']}s")
    return 1 if new else 0


def main(argv=None) -> int:
    argv = list(sys.argv[1:] if argv is None else argv)
    if not argv:
        print("usage: check <ID> quick|thorough | check <ID> --replay <path>")
        return 2
    pid = argv[0]
    mod = importlib.import_module(f"pmv.checks.{pid.lower()}")
    seed = int(os.environ.get("VERIF_SEED", "0") or 0)
    if len(argv) >= 3 and argv[1] == "--replay":
        return mod.replay(argv[2])
    tier = argv[1] if len(argv) > 1 else os.environ.get("VERIF_TIER", "quick")
    if tier not in ("quick", "thorough"):
        tier = "quick"
    t0 = time.time()
    try:
        return mod.run(tier, seed, t0)
    except MachineryError as ex:
        print(f"MACHINERY-FAILURE {pid}: {ex}")
        return 2
    finally:
        tlc.cleanup(tlc.WORK)
