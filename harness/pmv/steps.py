"""Steps: projection to the specification's records, construction from them, random and
exhaustive generation, and the Apply / StepMap events."""
from __future__ import annotations

import json
import random

from . import proj
from .schemas import canon


def pstep(step):
    """Real Step -> the specification's step record (spec/PMStep.tla)."""
    from prosemirror.transform import (AddMarkStep, AddNodeMarkStep, AttrStep, RemoveMarkStep,
                                       RemoveNodeMarkStep, ReplaceAroundStep, ReplaceStep)
    from prosemirror.transform.doc_attr_step import DocAttrStep
    if isinstance(step, ReplaceAroundStep):
        return {"type": "replaceAround", "from": step.from_, "to": step.to, "gapFrom": step.gap_from,
                "gapTo": step.gap_to, "insert": step.insert, "slice": proj.proj_slice(step.slice),
                "structure": bool(step.structure)}
    if isinstance(step, ReplaceStep):
        return {"type": "replace", "from": step.from_, "to": step.to, "slice": proj.proj_slice(step.slice),
                "structure": bool(step.structure)}
    if isinstance(step, AddMarkStep):
        return {"type": "addMark", "from": step.from_, "to": step.to, "mark": proj.pmark(step.mark)}
    if isinstance(step, RemoveMarkStep):
        return {"type": "removeMark", "from": step.from_, "to": step.to, "mark": proj.pmark(step.mark)}
    if isinstance(step, AddNodeMarkStep):
        return {"type": "addNodeMark", "pos": step.pos, "mark": proj.pmark(step.mark)}
    if isinstance(step, RemoveNodeMarkStep):
        return {"type": "removeNodeMark", "pos": step.pos, "mark": proj.pmark(step.mark)}
    if isinstance(step, AttrStep):
        return {"type": "attr", "pos": step.pos, "attr": step.attr, "value": canon(step.value)}
    if isinstance(step, DocAttrStep):
        return {"type": "docAttr", "attr": step.attr, "value": canon(step.value)}
    raise TypeError(type(step))


def mk_mark(schema, m):
    return schema.marks[m["t"]].create(json.loads(m["a"]))


def mkstep(schema, st):
    """The specification's step record -> real Step."""
    from prosemirror.transform import (AddMarkStep, AddNodeMarkStep, AttrStep, RemoveMarkStep,
                                       RemoveNodeMarkStep, ReplaceAroundStep, ReplaceStep)
    from prosemirror.transform.doc_attr_step import DocAttrStep
    t = st["type"]
    if t == "replace":
        return ReplaceStep(st["from"], st["to"], proj.unproj_slice(schema, st["slice"]), st.get("structure"))
    if t == "replaceAround":
        return ReplaceAroundStep(st["from"], st["to"], st["gapFrom"], st["gapTo"],
                                 proj.unproj_slice(schema, st["slice"]), st["insert"], st.get("structure"))
    if t == "addMark":
        return AddMarkStep(st["from"], st["to"], mk_mark(schema, st["mark"]))
    if t == "removeMark":
        return RemoveMarkStep(st["from"], st["to"], mk_mark(schema, st["mark"]))
    if t == "addNodeMark":
        return AddNodeMarkStep(st["pos"], mk_mark(schema, st["mark"]))
    if t == "removeNodeMark":
        return RemoveNodeMarkStep(st["pos"], mk_mark(schema, st["mark"]))
    if t == "attr":
        return AttrStep(st["pos"], st["attr"], json.loads(st["value"]))
    if t == "docAttr":
        return DocAttrStep(st["attr"], json.loads(st["value"]))
    raise ValueError(t)


def via_json(schema, step):
    """The untrusted-peer path: to_json -> real JSON text -> from_json."""
    from prosemirror.transform import Step
    return Step.from_json(schema, json.loads(json.dumps(step.to_json())))


def map_ranges(step):
    r = list(step.get_map().ranges)
    return [r[i:i + 3] for i in range(0, len(r), 3)]


def apply_outcome(step, doc):
    """(res record, resulting doc or None) with the classes the properties distinguish."""
    try:
        r = step.apply(doc)
    except Exception as ex:  # noqa: BLE001
        return {"kind": "raise", "cls": type(ex).__name__, "valueerror": isinstance(ex, ValueError),
                "msg": str(ex)[:100]}, None
    if r.failed is not None or r.doc is None:
        return {"kind": "fail", "msg": str(r.failed)[:100]}, None
    return {"kind": "ok"}, r.doc


def ev_apply(b, doc, di, step, st=None, tag=""):
    """Apply event (C01) + StepMap event (C03) for one (document, step)."""
    res, d2 = apply_outcome(step, doc)
    st = st or pstep(step)
    ev = {"ev": "Apply", "di": di, "step": st, "ra": proj.pattrs(doc.attrs), "res": res, "tag": tag}
    if d2 is not None:
        ev["out"] = proj.proj(d2)
        ev["outra"] = proj.pattrs(d2.attrs)
    ida = b.add(ev)
    idm = None
    if d2 is not None:
        try:
            mr = map_ranges(step)
            # the library's own mapping of every position of the old document (forward and backward side)
            m = step.get_map()
            n = doc.content.size
            mapped = [[m.map(p, 1), m.map(p, -1)] for p in range(n + 1)] if n <= 400 else []
            idm = b.add({"ev": "StepMap", "di": di, "step": st, "res": res, "out": ev["out"], "map": mr, "mapped": mapped, "tag": tag})
        except Exception as ex:  # noqa: BLE001
            idm = b.add({"ev": "StepMap", "di": di, "step": st, "res": {"kind": "raise", "cls": type(ex).__name__},
                         "out": ev["out"], "map": [], "mapped": [], "tag": tag})
    return ida, idm, d2


# --------------------------------------------------------------------- generators

class StepGen:
    """Random steps of all eight types against a document: in-range positions, payloads
    that are valid by themselves but not necessarily right for the document."""

    def __init__(self, schema, js, rng: random.Random, slices):
        from .gen import DocGen, SchemaInfo
        self.schema = schema
        self.js = js
        self.rng = rng
        self.slices = slices           # list of real Slice objects from other documents
        self.info = SchemaInfo(js)
        self.dg = DocGen(js, rng)

    def mark(self):
        if not self.schema.marks:
            return None
        mt = self.rng.choice(list(self.schema.marks))
        return mk_mark(self.schema, self.dg.mark(mt))

    def wrapper_slice(self):
        """A closed slice made of one or two nested empty wrapper nodes (for replace-around)."""
        from prosemirror.model import Fragment, Slice
        names = [n for n in self.info.order if not self.info.is_leaf(n) and n != self.info.top and n != "text"]
        k = self.rng.choice([1, 1, 2])
        frag = Fragment.empty
        try:
            for _ in range(k):
                n = self.rng.choice(names)
                attrs = {a: json.loads(v) for a, v in self.dg.attrs(n).items()}
                frag = Fragment.from_(self.schema.nodes[n].create(attrs, frag))
        except Exception:  # noqa: BLE001
            return None, 0
        return Slice(frag, 0, 0), k

    def around_with_flat_gap(self, doc):
        """A replace-around step whose gap is a flat run of sibling nodes (so that the step has a chance to
        apply) around which an arbitrary slice of the pool - open or closed, one or several top-level
        nodes - is placed with an arbitrary insertion offset."""
        from prosemirror.transform import ReplaceAroundStep
        r = self.rng
        nodes = [(0, doc)]
        doc.descendants(lambda node, pos, parent, index: nodes.append((pos + 1, node)) if not node.is_leaf and not node.is_text else None)
        start, parent = r.choice(nodes)
        cc = parent.child_count
        i = r.randint(0, cc)
        j = r.randint(i, cc)
        gf = start + sum(parent.child(k).node_size for k in range(i))
        gt = gf + sum(parent.child(k).node_size for k in range(i, j))
        n = doc.content.size
        f = max(0, gf - r.choice([0, 0, 1, 1, 2, 3]))
        t = min(n, gt + r.choice([0, 0, 1, 1, 2, 3]))
        if not self.slices:
            return None
        sl = r.choice(self.slices)
        return ReplaceAroundStep(f, t, gf, gt, sl, r.randint(0, max(0, sl.size)), r.random() < 0.3)

    def cross_sibling_delete(self, doc):
        """A plain deletion (or replacement by a small slice) whose two ends sit at the same depth inside two different
        children of one node, one or more levels down: applying it joins nodes on several levels at once."""
        from prosemirror.model import Slice
        from prosemirror.transform import ReplaceStep
        r = self.rng
        cands = []

        def visit(node, pos, parent, index):
            if not node.is_leaf and not node.is_text:
                kids = [k for k in range(node.child_count) if not node.child(k).is_leaf and not node.child(k).is_text]
                if len(kids) >= 2:
                    cands.append((pos, node, kids))
        visit(doc, -1, None, 0)
        doc.descendants(visit)
        if not cands:
            return None
        pos, node, kids = r.choice(cands)
        i, j = sorted(r.sample(kids, 2))
        if r.random() < 0.6:
            j = i + 1 if (i + 1) in kids else j

        def descend(k, levels, last):
            at = pos + 1 + sum(node.child(x).node_size for x in range(k))
            cur = node.child(k)
            depth = 0
            while True:
                depth += 1
                inner = [x for x in range(cur.child_count) if not cur.child(x).is_leaf and not cur.child(x).is_text]
                if depth >= levels or not inner:
                    idx = r.randint(0, cur.child_count)
                    if cur.is_textblock:
                        return at + 1 + r.randint(0, cur.content.size), depth
                    return at + 1 + sum(cur.child(x).node_size for x in range(idx)), depth
                x = (inner[-1] if last else inner[0]) if r.random() < 0.7 else r.choice(inner)
                at = at + 1 + sum(cur.child(y).node_size for y in range(x))
                cur = cur.child(x)
        levels = r.choice([1, 2, 2, 3])
        f, df = descend(i, levels, True)
        t, dt = descend(j, df, False)
        if df != dt or f > t:
            return None
        sl = Slice.empty if r.random() < 0.8 or not self.slices else r.choice(self.slices)
        return ReplaceStep(f, t, sl, r.random() < 0.1)

    def around_balanced_open_gap(self, doc):
        """A replace-around step whose gap is *balanced but not flat*: it starts inside one child of a node and ends
        inside a later child, at the same depth (the cut-off boundary nodes may be invalid by themselves - a list
        item left empty).  The step's range covers the node (or only its children) and the slice is a wrapper of
        the node's own type, of a sibling type, or empty.  Such a step must be refused."""
        from prosemirror.model import Fragment, Slice
        from prosemirror.transform import ReplaceAroundStep
        r = self.rng
        cands = []

        def visit(node, pos, parent, index):
            if not node.is_leaf and not node.is_text:
                kids = [k for k in range(node.child_count) if not node.child(k).is_leaf and not node.child(k).is_text]
                if len(kids) >= 2:
                    cands.append((pos, node, kids))
        visit(doc, -1, None, 0)
        doc.descendants(visit)
        if not cands:
            return None
        pos, node, kids = r.choice(cands)
        i, j = sorted(r.sample(kids, 2))

        def inside(k, edge):
            start = pos + 1 + sum(node.child(x).node_size for x in range(k)) + 1
            ch = node.child(k)
            idx = r.choice([edge, edge, r.randint(0, ch.child_count)])
            idx = ch.child_count if idx == "end" else 0 if idx == "start" else idx
            return start + sum(ch.child(x).node_size for x in range(idx))
        gf, gt = inside(i, "end"), inside(j, "start")
        outer = pos >= 0 and r.random() < 0.7
        f, t = (pos, pos + node.node_size) if outer else (pos + 1, pos + 1 + node.content.size)
        if r.random() < 0.5:
            # only part of the node's children: from the start of child i to the end of child j
            f2 = pos + 1 + sum(node.child(x).node_size for x in range(i))
            t2 = pos + 1 + sum(node.child(x).node_size for x in range(j + 1))
            if not outer:
                f, t = f2, t2
        if outer:
            names = [node.type.name] * 3 + [nm for nm in self.info.order if not self.info.is_leaf(nm) and nm not in ("text", self.info.top)]
            nm = r.choice(names)
            try:
                attrs = dict(node.attrs) if nm == node.type.name else {a: json.loads(v) for a, v in self.dg.attrs(nm).items()}
                sl, k = Slice(Fragment.from_(self.schema.nodes[nm].create(attrs)), 0, 0), 1
            except Exception:  # noqa: BLE001
                return None
        else:
            sl, k = Slice.empty, 0
        return ReplaceAroundStep(f, t, gf, gt, sl, k, r.random() < 0.15)

    def around_wrap_extended(self, doc):
        """A wrap of a flat run of siblings in a random chain of wrapper types - which may or may not be
        able to hold the gap - extended on both sides: the step's range reaches back to `from` and on to
        `to`, and the slice re-inserts what was there (so it is open where from/to are deeper than the gap).
        This yields slices with several top-level nodes, deep open sides and the gap inside a closed node."""
        from prosemirror.model import Fragment, Slice
        from prosemirror.transform import ReplaceAroundStep
        r = self.rng
        nodes = [(0, doc, 0)]

        def visit(node, pos, parent, index):
            if not node.is_leaf and not node.is_text:
                nodes.append((pos + 1, node, doc.resolve(pos + 1).depth))
        doc.descendants(visit)
        start, parent, k = r.choice(nodes)
        cc = parent.child_count
        if cc == 0:
            return None
        i = r.randint(0, cc - 1)
        j = r.randint(i + 1, cc)
        gf = start + sum(parent.child(x).node_size for x in range(i))
        gt = gf + sum(parent.child(x).node_size for x in range(i, j))
        n = doc.content.size
        lo = start
        hi = start + parent.content.size
        f = r.randint(lo, gf) if r.random() < 0.5 else gf
        t = r.randint(gt, hi) if r.random() < 0.7 else gt
        try:
            head = doc.slice(f, gf) if f < gf else Slice.empty
            tail = doc.slice(gt, t) if t > gt else Slice.empty
        except Exception:  # noqa: BLE001
            return None
        if head.open_end or tail.open_start:
            return None
        names = [nm for nm in self.info.order if not self.info.is_leaf(nm) and nm != "text" and nm != self.info.top]
        m = r.choice([1, 1, 2, 2, 3])
        frag = Fragment.empty
        try:
            for _ in range(m):
                nm = r.choice(names)
                attrs = {a: json.loads(v) for a, v in self.dg.attrs(nm).items()}
                frag = Fragment.from_(self.schema.nodes[nm].create(attrs, frag))
        except Exception:  # noqa: BLE001
            return None
        content = head.content.append(frag).append(tail.content)
        sl = Slice(content, head.open_start, tail.open_end)
        return ReplaceAroundStep(f, t, gf, gt, sl, head.size + m, r.random() < 0.5)

    def random_step(self, doc):
        from prosemirror.model import Slice
        from prosemirror.transform import (AddMarkStep, AddNodeMarkStep, AttrStep, RemoveMarkStep,
                                           RemoveNodeMarkStep, ReplaceAroundStep, ReplaceStep)
        from prosemirror.transform.doc_attr_step import DocAttrStep
        r = self.rng
        n = doc.content.size
        kind = r.choice(["replace", "replace", "replace", "around", "around", "addMark", "removeMark",
                         "addNodeMark", "removeNodeMark", "attr", "docAttr", "struct"])
        f = r.randint(0, n)
        t = r.randint(f, n)
        if r.random() < 0.5:
            t = min(n, f + r.randint(0, 4))
        if kind == "replace":
            sl = r.choice(self.slices) if self.slices and r.random() < 0.85 else Slice.empty
            return ReplaceStep(f, t, sl, r.random() < 0.1)
        if kind == "struct":
            # structure-flagged deletions and splits at random positions
            if r.random() < 0.5:
                return ReplaceStep(f, t, Slice.empty, True)
            try:
                d = r.randint(1, 2)
                rp = doc.resolve(f)
                if rp.depth >= d:
                    from prosemirror.model import Fragment
                    before = after = Fragment.empty
                    for k in range(rp.depth, rp.depth - d, -1):
                        before = Fragment.from_(rp.node(k).copy(before))
                        after = Fragment.from_(rp.node(k).copy(after))
                    return ReplaceStep(f, f, Slice(before.append(after), d, d), True)
            except Exception:  # noqa: BLE001
                pass
            return ReplaceStep(f, t, Slice.empty, True)
        if kind == "around":
            gf = r.randint(f, t)
            gt = r.randint(gf, t)
            if r.random() < 0.6:
                # wrap-like: gap = whole range
                gf, gt = f, t
            sl, k = self.wrapper_slice()
            if sl is None:
                return ReplaceStep(f, t, Slice.empty)
            if r.random() < 0.3 and self.slices:
                sl = r.choice(self.slices)
                k = r.randint(0, max(0, sl.size))
            return ReplaceAroundStep(f, t, gf, gt, sl, k if r.random() < 0.8 else r.randint(0, max(0, sl.size)),
                                     r.random() < 0.6)
        if kind in ("addMark", "removeMark"):
            m = self.mark()
            if m is None:
                return ReplaceStep(f, t, Slice.empty)
            return (AddMarkStep if kind == "addMark" else RemoveMarkStep)(f, t, m)
        if kind in ("addNodeMark", "removeNodeMark", "attr") and r.random() < 0.8:
            poss = []
            doc.descendants(lambda node, pos, parent, index: poss.append(pos) if not node.is_text else None)
            if poss:
                f = r.choice(poss)
        if kind in ("addNodeMark", "removeNodeMark"):
            m = self.mark()
            if m is None:
                return ReplaceStep(f, t, Slice.empty)
            if kind == "removeNodeMark" and r.random() < 0.6:
                try:
                    nd = doc.node_at(f)
                    if nd is not None and nd.marks:
                        m = r.choice(nd.marks)
                        if m.attrs and r.random() < 0.4:
                            # a mark of the same type as one the node carries, with other attribute values
                            other = {k: (v + "2" if isinstance(v, str) else v) for k, v in m.attrs.items()}
                            if other != m.attrs:
                                m = m.type.create(other)
                except Exception:  # noqa: BLE001
                    pass
            return (AddNodeMarkStep if kind == "addNodeMark" else RemoveNodeMarkStep)(f, m)
        if kind == "attr":
            node = None
            try:
                node = doc.node_at(f)
            except Exception:  # noqa: BLE001
                pass
            names = list(node.attrs) if node is not None and node.attrs else ["level", "zz"]
            a = r.choice(names) if r.random() < 0.9 else "undeclared"
            from .gen import ATTR_POOL, FALSY_VALUES, GENERIC_VALUES
            import copy
            return AttrStep(f, a, copy.deepcopy(r.choice(ATTR_POOL.get(a, GENERIC_VALUES) + FALSY_VALUES)))
        top_attrs = list(doc.attrs) or ["meta"]
        from .gen import ATTR_POOL, FALSY_VALUES, GENERIC_VALUES
        a = r.choice(top_attrs)
        import copy
        return DocAttrStep(a, copy.deepcopy(r.choice(ATTR_POOL.get(a, GENERIC_VALUES) + FALSY_VALUES)))
