"""Rebasing-style mapping constructions over real step histories (the way collaborative editing uses
Mapping mirrors), recorded as "Mapping" events for Trace_Doc!VMapping."""
from __future__ import annotations

import random


def snapshot(mp, queries, roundtrip=False, tag=""):
    """One Mapping event: the mapping's observable state + the library's answers to the queries."""
    mirror = mp.mirror or []
    ev = {"ev": "Mapping", "tag": tag, "roundtrip": bool(roundtrip),
          "maps": [{"ranges": [list(m.ranges[i:i + 3]) for i in range(0, len(m.ranges), 3)], "inv": bool(m.inverted)} for m in mp.maps],
          "mirror": [[mirror[i], mirror[i + 1]] for i in range(0, len(mirror), 2)],
          "from": mp.from_, "to": mp.to, "q": []}
    for p, assoc in queries:
        try:
            r = mp.map_result(p, assoc)
            ev["q"].append({"p": p, "assoc": assoc, "mode": "both", "res": {"kind": "ok"}, "pos": r.pos, "del": r.del_info, "simple": mp.map(p, assoc)})
        except Exception as ex:  # noqa: BLE001
            ev["q"].append({"p": p, "assoc": assoc, "mode": "both", "res": {"kind": "raise", "cls": type(ex).__name__}, "pos": -1, "del": 0, "simple": -1})
    return ev


def all_queries(size, rng, limit=40):
    ps = list(range(size + 1))
    if len(ps) > limit:
        ps = rng.sample(ps, limit)
    return [(p, a) for p in ps for a in (-1, 1)]


def undo_shape(b, tr, rng):
    """[m1..mk, inv(mk)..inv(m1)] with mirrors: forward and back is the identity on the start document."""
    from prosemirror.transform import Mapping
    mp = Mapping()
    maps = list(tr.mapping.maps)
    for m in maps:
        mp.append_map(m)
    for i in range(len(maps) - 1, -1, -1):
        mp.append_map(maps[i].invert(), i)
    b.add(snapshot(mp, all_queries(tr.before.content.size, rng), roundtrip=True, tag="undo"))
    # the same through Mapping.invert / append_mapping_inverted
    mp2 = tr.mapping.copy()
    mp2.append_mapping_inverted(tr.mapping)
    b.add(snapshot(mp2, all_queries(tr.before.content.size, rng), roundtrip=False, tag="append_mapping_inverted"))
    b.add(snapshot(tr.mapping.invert(), all_queries(tr.doc.content.size, rng), tag="invert"))
    k = len(maps)
    if k >= 2:
        f = rng.randint(0, k - 1)
        t = rng.randint(f, k)
        b.add(snapshot(mp.slice(f, t + (k - f) if rng.random() < 0.5 else t), all_queries(tr.docs[f].content.size if f < k else tr.doc.content.size, rng), tag="slice"))


def rebase(b, base, local_steps, remote_steps, rng):
    """prosemirror-collab's rebaseSteps: undo the local steps, apply the remote ones, re-apply the local
    steps mapped through the growing mapping with mirrors.  Every mapping slice that is used is recorded."""
    from prosemirror.transform import Transform
    # local history on base
    tr0 = Transform(base)
    applied = []
    for st in local_steps:
        r = tr0.maybe_step(st)
        if r.failed is None:
            applied.append((st, tr0.docs[-1]))
    if not applied:
        return None
    tr = Transform(tr0.doc)
    for st, before in reversed(applied):
        tr.step(st.invert(before))
    ok_remote = 0
    for st in remote_steps:
        if tr.maybe_step(st).failed is None:
            ok_remote += 1
    map_from = len(applied)
    rebased = 0
    for st, _ in applied:
        sl = tr.mapping.slice(map_from)
        b.add(snapshot(sl, all_queries(min(40, tr.docs[map_from].content.size if map_from < len(tr.docs) else tr.doc.content.size), rng, 20), tag="rebase-slice"))
        mapped = st.map(sl)
        map_from -= 1
        if mapped is not None and tr.maybe_step(mapped).failed is None:
            tr.mapping.set_mirror(map_from, len(tr.steps) - 1)
            rebased += 1
    b.add(snapshot(tr.mapping, all_queries(tr.before.content.size, rng, 30), tag="rebase-full"))
    return {"local": len(applied), "remote": ok_remote, "rebased": rebased}
