"""pytest plug-in: records the public calls the repository's own tests make, for trace validation.

Loaded only when asked for (`-p pmv.pmv_tracer`) and active only when the environment variable PMV_TRACE names
an output file.  It wraps public methods at import time with pass-through wrappers that return the callee's
own result, log in `finally` (the return of the public call is the linearization point of a sequential
library) and never touch the arguments.  Nothing in /repo is modified.

Recorded: Step.apply of every step class (-> "Apply" and "StepMap" events), Node.replace, Node.slice, and the
outermost StepMap.map / map_result and Mapping.map / map_result of every call chain (-> "Mapping" events), and the
inputs of every outermost replace-family / mark operation of a Transform ("TrCall": re-executed by C11 / C13).
"""
from __future__ import annotations

import functools
import json
import os

OUT = os.environ.get("PMV_TRACE")
_events = []          # (schema id, event dict with real-object projections)
_schemas = {}
_depth = {"apply": 0}
_counts = {}
_maps = []            # schema-independent events: StepMap / Mapping queries
_calls = []           # (schema id, inputs of an outermost Transform operation)
_specs = {}


def _sid(schema):
    from . import schemas
    key = id(schema)
    if key not in _schemas:
        try:
            stripped = schemas._strip(schema.spec)
            json.dumps(stripped)
            _schemas[key] = schemas.export(stripped, f"suite{len(_schemas)}")
            _specs[key] = stripped
        except Exception:  # noqa: BLE001 - a schema spec the exporter cannot read: skip its events
            _schemas[key] = None
    return key if _schemas[key] is not None else None


def _install():
    from prosemirror.model import Node
    from prosemirror.transform import (AddMarkStep, AddNodeMarkStep, AttrStep, RemoveMarkStep, RemoveNodeMarkStep,
                                       ReplaceAroundStep, ReplaceStep)
    from prosemirror.transform.doc_attr_step import DocAttrStep

    from . import proj, steps

    def wrap_apply(cls):
        orig = cls.apply

        @functools.wraps(orig)
        def apply(self, doc):
            res = None
            exc = None
            try:
                res = orig(self, doc)
                return res
            except Exception as ex:  # noqa: BLE001
                exc = ex
                raise
            finally:
                try:
                    sid = _sid(doc.type.schema)
                    if sid is not None and len(_events) < 20000:
                        if exc is not None:
                            r = {"kind": "raise", "cls": type(exc).__name__, "valueerror": isinstance(exc, ValueError)}
                            out = None
                        elif res.failed is not None or res.doc is None:
                            r = {"kind": "fail", "msg": str(res.failed)[:80]}
                            out = None
                        else:
                            r = {"kind": "ok"}
                            out = res.doc
                        ev = {"ev": "Apply", "doc": proj.proj(doc), "step": steps.pstep(self), "ra": proj.pattrs(doc.attrs), "res": r, "tag": "testsuite"}
                        if out is not None:
                            ev["out"] = proj.proj(out)
                            ev["outra"] = proj.pattrs(out.attrs)
                            ev["map"] = steps.map_ranges(self)
                        _events.append((sid, ev))
                except Exception:  # noqa: BLE001 - tracing must never disturb the test
                    pass
        cls.apply = apply

    for cls in (ReplaceStep, ReplaceAroundStep, AddMarkStep, RemoveMarkStep, AddNodeMarkStep, RemoveNodeMarkStep, AttrStep, DocAttrStep):
        wrap_apply(cls)

    orig_replace = Node.replace
    orig_slice = Node.slice

    @functools.wraps(orig_replace)
    def replace(self, from_, to, slice):
        res = None
        exc = None
        try:
            res = orig_replace(self, from_, to, slice)
            return res
        except Exception as ex:  # noqa: BLE001
            exc = ex
            raise
        finally:
            try:
                sid = _sid(self.type.schema)
                if sid is not None and self.type == self.type.schema.top_node_type and len(_events) < 20000:
                    r = {"kind": "ok"} if exc is None else {"kind": "raise", "cls": type(exc).__name__, "valueerror": isinstance(exc, ValueError)}
                    ev = {"ev": "Replace", "doc": proj.proj(self), "slice": proj.proj_slice(slice), "from": from_, "to": to, "res": r}
                    if res is not None:
                        ev["out"] = proj.proj(res)
                    _events.append((sid, ev))
            except Exception:  # noqa: BLE001
                pass

    @functools.wraps(orig_slice)
    def slice_(self, from_, to=None, include_parents=False):
        res = None
        exc = None
        try:
            res = orig_slice(self, from_, to, include_parents)
            return res
        except Exception as ex:  # noqa: BLE001
            exc = ex
            raise
        finally:
            try:
                sid = _sid(self.type.schema)
                if sid is not None and self.type == self.type.schema.top_node_type and not include_parents and len(_events) < 20000:
                    t = self.content.size if to is None else to
                    r = {"kind": "ok"} if exc is None else {"kind": "raise", "cls": type(exc).__name__, "valueerror": isinstance(exc, ValueError)}
                    ev = {"ev": "Slice", "doc": proj.proj(self), "from": from_, "to": t, "res": r}
                    if res is not None:
                        ev["out"] = proj.proj_slice(res)
                        ev["size"] = res.size
                    _events.append((sid, ev))
            except Exception:  # noqa: BLE001
                pass
    Node.replace = replace
    Node.slice = slice_

    # ---- Transform operations: the inputs of the outermost call (document before, operation, arguments); the
    # harness re-executes them on a fresh Transform (the library is deterministic) and has TLC judge the outcome
    from prosemirror.model import Fragment, Mark, MarkType, Slice
    from prosemirror.transform import Transform

    def wrap_op(name, describe):
        orig = getattr(Transform, name)

        @functools.wraps(orig)
        def op(self, *args, **kw):
            _depth["op"] = _depth.get("op", 0) + 1
            rec = None
            try:
                if _depth["op"] == 1 and not kw and len(_calls) < 4000:
                    try:
                        sid = _sid(self.doc.type.schema)
                        if sid is not None and self.doc.type == self.doc.type.schema.top_node_type:
                            d = describe(*args)
                            if d is not None:
                                rec = dict(d, ev="TrCall", op=name, doc=proj.proj(self.doc), ra=proj.pattrs(self.doc.attrs))
                                _calls.append((sid, rec))
                    except Exception:  # noqa: BLE001
                        pass
                return orig(self, *args, **kw)
            finally:
                _depth["op"] -= 1
        setattr(Transform, name, op)

    def sl_(x):
        return proj.proj_slice(x if x is not None else Slice.empty)

    def node_(x):
        if isinstance(x, Fragment):
            return proj.proj_slice(Slice(x, 0, 0))
        if isinstance(x, (list, tuple)):
            return proj.proj_slice(Slice(Fragment.from_(list(x)), 0, 0))
        return proj.proj_slice(Slice(Fragment.from_(x), 0, 0))

    wrap_op("replace", lambda f, t=None, sl=None: {"from": f, "to": f if t is None else t, "slice": sl_(sl)})
    wrap_op("replace_range", lambda f, t, sl: {"from": f, "to": t, "slice": sl_(sl)})
    wrap_op("replace_with", lambda f, t, n: {"from": f, "to": t, "slice": node_(n)})
    wrap_op("replace_range_with", lambda f, t, n: {"from": f, "to": t, "slice": node_(n)})
    wrap_op("insert", lambda pos, n: {"from": pos, "to": pos, "slice": node_(n)})
    wrap_op("delete", lambda f, t: {"from": f, "to": t, "slice": sl_(None)})
    wrap_op("delete_range", lambda f, t: {"from": f, "to": t, "slice": sl_(None)})
    wrap_op("add_mark", lambda f, t, m: {"from": f, "to": t, "mark": proj.pmark(m)} if isinstance(m, Mark) else None)
    wrap_op("remove_mark", lambda f, t, m=None: {"from": f, "to": t,
                                                  "mark": proj.pmark(m) if isinstance(m, Mark) else None,
                                                  "mtype": m.name if isinstance(m, MarkType) else None})

    # ---- position maps: the outermost StepMap / Mapping query of every call chain
    from prosemirror.transform import Mapping, StepMap

    def ranges_of(m):
        return {"ranges": [list(m.ranges[i:i + 3]) for i in range(0, len(m.ranges), 3)], "inv": bool(m.inverted)}

    def state_of(obj):
        if isinstance(obj, StepMap):
            return {"maps": [ranges_of(obj)], "mirror": [], "from": 0, "to": 1}
        mirror = obj.mirror or []
        return {"maps": [ranges_of(m) for m in obj.maps], "mirror": [[mirror[i], mirror[i + 1]] for i in range(0, len(mirror) - 1, 2)],
                "from": obj.from_, "to": obj.to}

    def wrap_query(cls, name, mode):
        orig = getattr(cls, name)

        @functools.wraps(orig)
        def query(self, pos, assoc=1):
            _depth["map"] = _depth.get("map", 0) + 1
            res = None
            exc = None
            try:
                res = orig(self, pos, assoc)
                return res
            except Exception as ex:  # noqa: BLE001
                exc = ex
                raise
            finally:
                _depth["map"] -= 1
                try:
                    if _depth["map"] == 0 and _counts.get("map", 0) < 6000 and isinstance(pos, int) and not isinstance(pos, bool):
                        _counts["map"] = _counts.get("map", 0) + 1
                        q = {"p": pos, "assoc": 1 if assoc is None else assoc, "mode": mode, "pos": -1, "del": 0, "simple": -1,
                             "res": {"kind": "ok"} if exc is None else {"kind": "raise", "cls": type(exc).__name__}}
                        if exc is None and mode == "simple":
                            q["simple"] = res
                        elif exc is None:
                            q["pos"], q["del"] = res.pos, res.del_info
                        ev = {"ev": "Mapping", "tag": "testsuite", "roundtrip": False, "q": [q]}
                        ev.update(state_of(self))
                        _maps.append(ev)
                except Exception:  # noqa: BLE001
                    pass
        setattr(cls, name, query)

    wrap_query(StepMap, "map", "simple")
    wrap_query(StepMap, "map_result", "result")
    wrap_query(Mapping, "map", "simple")
    wrap_query(Mapping, "map_result", "result")


def pytest_configure(config):
    if OUT:
        _install()


def pytest_sessionfinish(session, exitstatus):
    if OUT:
        by = {}
        for sid, ev in _events:
            by.setdefault(sid, []).append(ev)
        with open(OUT, "w") as f:
            json.dump({"schemas": {str(k): v for k, v in _schemas.items() if v is not None},
                       "events": {str(k): v for k, v in by.items()}, "maps": _maps,
                       "specs": {str(k): v for k, v in _specs.items() if _schemas.get(k) is not None},
                       "calls": [[str(sid), rec] for sid, rec in _calls], "exitstatus": int(exitstatus)}, f)
