"""pytest plug-in: records the public calls the repository's own tests make, for trace validation.

Loaded only when asked for (`-p pmv.pmv_tracer`) and active only when the environment variable PMV_TRACE names
an output file.  It wraps public methods at import time with pass-through wrappers that return the callee's
own result, log in `finally` (the return of the public call is the linearization point of a sequential
library) and never touch the arguments.  Nothing in /repo is modified.

Recorded: Step.apply of every step class (-> "Apply" and "StepMap" events), Node.replace, Node.slice.
"""
from __future__ import annotations

import functools
import json
import os

OUT = os.environ.get("PMV_TRACE")
_events = []          # (schema id, event dict with real-object projections)
_schemas = {}
_depth = {"apply": 0}


def _sid(schema):
    from . import schemas
    key = id(schema)
    if key not in _schemas:
        try:
            _schemas[key] = schemas.export(schemas._strip(schema.spec), f"suite{len(_schemas)}")
        except Exception:  # noqa: BLE001 - a schema spec the exporter cannot read: skip its events
            _schemas[key] = None
    return key if _schemas[key] is not None else None


def _install():
    from prosemirror.model import Node
    from prosemirror.transform import (AddMarkStep, AddNodeMarkStep, AttrStep, RemoveMarkStep, RemoveNodeMarkStep,
                                       ReplaceAroundStep, ReplaceStep)
    from prosemirror.transform.doc_attr_step import DocAttrStep

    from . import proj, steps

    def wrap_apply(cls):
        orig = cls.apply

        @functools.wraps(orig)
        def apply(self, doc):
            res = None
            exc = None
            try:
                res = orig(self, doc)
                return res
            except Exception as ex:  # noqa: BLE001
                exc = ex
                raise
            finally:
                try:
                    sid = _sid(doc.type.schema)
                    if sid is not None and len(_events) < 20000:
                        if exc is not None:
                            r = {"kind": "raise", "cls": type(exc).__name__, "valueerror": isinstance(exc, ValueError)}
                            out = None
                        elif res.failed is not None or res.doc is None:
                            r = {"kind": "fail", "msg": str(res.failed)[:80]}
                            out = None
                        else:
                            r = {"kind": "ok"}
                            out = res.doc
                        ev = {"ev": "Apply", "doc": proj.proj(doc), "step": steps.pstep(self), "ra": proj.pattrs(doc.attrs), "res": r, "tag": "testsuite"}
                        if out is not None:
                            ev["out"] = proj.proj(out)
                            ev["outra"] = proj.pattrs(out.attrs)
                            ev["map"] = steps.map_ranges(self)
                        _events.append((sid, ev))
                except Exception:  # noqa: BLE001 - tracing must never disturb the test
                    pass
        cls.apply = apply

    for cls in (ReplaceStep, ReplaceAroundStep, AddMarkStep, RemoveMarkStep, AddNodeMarkStep, RemoveNodeMarkStep, AttrStep, DocAttrStep):
        wrap_apply(cls)

    orig_replace = Node.replace
    orig_slice = Node.slice

    @functools.wraps(orig_replace)
    def replace(self, from_, to, slice):
        res = None
        exc = None
        try:
            res = orig_replace(self, from_, to, slice)
            return res
        except Exception as ex:  # noqa: BLE001
            exc = ex
            raise
        finally:
            try:
                sid = _sid(self.type.schema)
                if sid is not None and self.type == self.type.schema.top_node_type and len(_events) < 20000:
                    r = {"kind": "ok"} if exc is None else {"kind": "raise", "cls": type(exc).__name__, "valueerror": isinstance(exc, ValueError)}
                    ev = {"ev": "Replace", "doc": proj.proj(self), "slice": proj.proj_slice(slice), "from": from_, "to": to, "res": r}
                    if res is not None:
                        ev["out"] = proj.proj(res)
                    _events.append((sid, ev))
            except Exception:  # noqa: BLE001
                pass

    @functools.wraps(orig_slice)
    def slice_(self, from_, to=None, include_parents=False):
        res = None
        exc = None
        try:
            res = orig_slice(self, from_, to, include_parents)
            return res
        except Exception as ex:  # noqa: BLE001
            exc = ex
            raise
        finally:
            try:
                sid = _sid(self.type.schema)
                if sid is not None and self.type == self.type.schema.top_node_type and not include_parents and len(_events) < 20000:
                    t = self.content.size if to is None else to
                    r = {"kind": "ok"} if exc is None else {"kind": "raise", "cls": type(exc).__name__, "valueerror": isinstance(exc, ValueError)}
                    ev = {"ev": "Slice", "doc": proj.proj(self), "from": from_, "to": t, "res": r}
                    if res is not None:
                        ev["out"] = proj.proj_slice(res)
                        ev["size"] = res.size
                    _events.append((sid, ev))
            except Exception:  # noqa: BLE001
                pass
    Node.replace = replace
    Node.slice = slice_


def pytest_configure(config):
    if OUT:
        _install()


def pytest_sessionfinish(session, exitstatus):
    if OUT:
        by = {}
        for sid, ev in _events:
            by.setdefault(sid, []).append(ev)
        with open(OUT, "w") as f:
            json.dump({"schemas": {str(k): v for k, v in _schemas.items() if v is not None},
                       "events": {str(k): v for k, v in by.items()}, "exitstatus": int(exitstatus)}, f)
