"""Projection between real documents and flat token sequences.

proj(node)   : walk a Node through its public read API and emit the tokens of its content.
unproj(...)  : build a real Node from tokens (through Node.from_json), for constructing inputs.
"""
from __future__ import annotations

from .schemas import canon


def units(text: str):
    b = text.encode("utf-16-le", "surrogatepass")
    return [b[i] | (b[i + 1] << 8) for i in range(0, len(b), 2)]


def from_units(us) -> str:
    return b"".join(bytes((u & 0xFF, u >> 8)) for u in us).decode("utf-16-le", "surrogatepass")


def pmark(m):
    return {"t": m.type.name, "a": canon(m.attrs)}


def pmarks(ms):
    return [pmark(m) for m in ms]


def pattrs(attrs):
    return {k: canon(v) for k, v in (attrs or {}).items()}


CLOSE = {"k": "c", "t": "", "a": {}, "m": [], "c": 0, "b": False}


def node_tokens(node, out):
    if node.is_text:
        ms = pmarks(node.marks)
        for i, u in enumerate(units(node.text)):
            out.append({"k": "x", "t": "text", "a": {}, "m": ms, "c": u, "b": i == 0})
    elif node.is_leaf:
        out.append({"k": "l", "t": node.type.name, "a": pattrs(node.attrs), "m": pmarks(node.marks), "c": 0, "b": False})
    else:
        out.append({"k": "o", "t": node.type.name, "a": pattrs(node.attrs), "m": pmarks(node.marks), "c": 0, "b": False})
        frag_tokens(node.content, out)
        out.append(dict(CLOSE))


def frag_tokens(frag, out):
    for i in range(frag.child_count):
        node_tokens(frag.child(i), out)


MALFORMED = {"k": "?", "t": "unprojectable", "a": {}, "m": [], "c": 0, "b": False}


def proj(node):
    """Tokens of the content of `node` (a document).  An object that cannot be read as a document (e.g. a text-typed
    node without text) is projected to a single malformed token, which no specification accepts as well-formed - the
    judgement stays with the trace specification instead of crashing the driver."""
    out = []
    try:
        frag_tokens(node.content, out)
    except (AttributeError, TypeError, KeyError, IndexError):
        return [dict(MALFORMED)]
    return out


def proj_fragment(frag):
    out = []
    frag_tokens(frag, out)
    return out


def proj_node(node):
    out = []
    node_tokens(node, out)
    return out


def proj_slice(s):
    return {"toks": proj_fragment(s.content), "os": s.open_start, "oe": s.open_end}


# ---------------------------------------------------------------- un-projection

def _json_attrs(a):
    import json
    return {k: json.loads(v) for k, v in a.items()}


def _json_marks(ms):
    import json
    return [{"type": m["t"], "attrs": json.loads(m["a"])} for m in ms]


def tokens_to_json(toks):
    """List of node JSON objects for a balanced token sequence."""
    stack = [[]]
    opens = []
    i = 0
    n = len(toks)
    while i < n:
        t = toks[i]
        k = t["k"]
        if k == "x":
            j = i
            us = []
            while j < n and toks[j]["k"] == "x" and toks[j]["m"] == t["m"] and (j == i or not toks[j]["b"]):
                us.append(toks[j]["c"])
                j += 1
            obj = {"type": "text", "text": from_units(us)}
            if t["m"]:
                obj["marks"] = _json_marks(t["m"])
            stack[-1].append(obj)
            i = j
            continue
        if k == "l":
            obj = {"type": t["t"]}
            if t["a"]:
                obj["attrs"] = _json_attrs(t["a"])
            if t["m"]:
                obj["marks"] = _json_marks(t["m"])
            stack[-1].append(obj)
        elif k == "o":
            obj = {"type": t["t"]}
            if t["a"]:
                obj["attrs"] = _json_attrs(t["a"])
            if t["m"]:
                obj["marks"] = _json_marks(t["m"])
            opens.append(obj)
            stack.append([])
        elif k == "c":
            kids = stack.pop()
            obj = opens.pop()
            if kids:
                obj["content"] = kids
            stack[-1].append(obj)
        i += 1
    assert len(stack) == 1, "unbalanced tokens"
    return stack[0]


def _build(schema, obj):
    """Real node for one node JSON object, built with the schema's constructors (NodeType.create / Schema.text /
    MarkType.create) and not with Node.from_json: the decoder is itself under test (C05), and a document built by a
    faulty decoder would silently stop being the document the generator asked for."""
    from prosemirror.model import Fragment
    ms = obj.get("marks")
    marks = [schema.marks[m["type"]].create(m.get("attrs")) for m in ms] if ms else None
    if obj["type"] == "text":
        return schema.text(str(obj["text"]), marks)
    kids = obj.get("content")
    content = Fragment([_build(schema, k) for k in kids]) if kids else Fragment.empty
    return schema.nodes[obj["type"]].create(obj.get("attrs"), content, marks)


def unproj(schema, toks, top_attrs=None):
    """Real document whose content is `toks`."""
    obj = {"type": schema.top_node_type.name, "content": tokens_to_json(toks)}
    if top_attrs:
        obj["attrs"] = top_attrs
    return _build(schema, obj)


def unproj_fragment(schema, toks):
    from prosemirror.model import Fragment
    kids = tokens_to_json(toks)
    return Fragment([_build(schema, k) for k in kids]) if kids else Fragment.empty


def unproj_slice(schema, s):
    from prosemirror.model import Slice
    return Slice(unproj_fragment(schema, s["toks"]), s["os"], s["oe"])
