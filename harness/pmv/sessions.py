"""Transform sessions: random histories over the whole Transform API, observed after every
public call (the linearization point of a sequential library is the call's return)."""
from __future__ import annotations

import random

from . import ops, proj, steps as stepmod


def observe(b, tr, tid, seq, opname, args, res):
    """One "Op" event: the full observable accumulator state + replay and undo by the library."""
    from prosemirror.transform import Transform
    ev = {"ev": "Op", "tid": tid, "seq": seq, "op": opname, "args": args, "res": res}
    ev["steps"] = [stepmod.pstep(s) for s in tr.steps]
    ev["docs"] = [b.doc(proj.proj(d)) for d in tr.docs]
    ev["ras"] = [proj.pattrs(d.attrs) for d in tr.docs]
    ev["maps"] = [[list(m.ranges[i:i + 3]) for i in range(0, len(m.ranges), 3)] for m in tr.mapping.maps]
    ev["stepmaps"] = [stepmod.map_ranges(s) for s in tr.steps]
    ev["doc"] = b.doc(proj.proj(tr.doc))
    ev["ra"] = proj.pattrs(tr.doc.attrs)
    # replay with the library's own apply
    try:
        cur = tr.before
        rdocs, rras = [], []
        for s in tr.steps:
            r = s.apply(cur)
            if r.failed is not None:
                raise ValueError("replay failed: " + str(r.failed))
            cur = r.doc
            rdocs.append(b.doc(proj.proj(cur)))
            rras.append(proj.pattrs(cur.attrs))
        ev["replay"] = {"kind": "ok", "docs": rdocs, "ras": rras}
    except Exception as ex:  # noqa: BLE001
        ev["replay"] = {"kind": "raise", "cls": type(ex).__name__, "docs": [], "ras": []}
    # undo with the library's own invert + apply
    try:
        cur = tr.doc
        for k in range(len(tr.steps) - 1, -1, -1):
            inv = tr.steps[k].invert(tr.docs[k])
            r = inv.apply(cur)
            if r.failed is not None:
                raise ValueError("undo failed: " + str(r.failed))
            cur = r.doc
        ev["undo"] = {"kind": "ok", "doc": b.doc(proj.proj(cur)), "ra": proj.pattrs(cur.attrs)}
    except Exception as ex:  # noqa: BLE001
        ev["undo"] = {"kind": "raise", "cls": type(ex).__name__, "doc": ev["doc"], "ra": ev["ra"], "msg": str(ex)[:100]}
    return b.add(ev)


def run_session(b, og: ops.OpGen, doc, tid, nops, oplist=None, on_op=None):
    from prosemirror.transform import Transform
    tr = Transform(doc)
    b.add({"ev": "Begin", "tid": tid, "seq": 0, "doc": b.doc(proj.proj(doc)), "ra": proj.pattrs(doc.attrs)})
    for seq in range(1, nops + 1):
        name, args, thunk = og.pick(tr, oplist)
        nsteps = len(tr.steps)
        res = ops.run_op(thunk)
        eid = observe(b, tr, tid, seq, name, args, res)
        if on_op:
            on_op(tr, name, args, res, nsteps, eid)
    return tr
