"""prosemirror-collab's protocol run over the library: a central authority with a step log and clients
that rebase their unconfirmed steps (rebaseSteps: undo own steps, apply remote steps, re-apply own steps
mapped through the growing mapping with mirrors).  Every protocol action is logged as one event for
spec/trace/Trace_Collab.tla (state of the actor after the action, arguments, outcome)."""
from __future__ import annotations

from . import proj, steps as stepmod


class Client:
    def __init__(self, doc):
        self.doc = doc
        self.version = 0
        self.unconf = []        # [(step, inverse)]


class Run:
    def __init__(self, batch, tid, schema, base, n):
        from prosemirror.transform import Transform  # noqa: F401
        self.b, self.tid, self.schema = batch, tid, schema
        self.auth_doc = base
        self.auth_steps = []
        self.clients = {c: Client(base) for c in range(1, n + 1)}
        self.ids = []
        self.stats = {"edits": 0, "sends": 0, "receives": 0, "rebased": 0, "dropped": 0, "mirror": 0}
        self.ids.append(batch.add({"ev": "Begin", "tid": tid, "base": batch.doc(proj.proj(base)), "ra": proj.pattrs(base.attrs), "n": n}))

    # -- logging
    def _actor(self, c):
        cl = self.clients[c]
        return {"doc": self.b.doc(proj.proj(cl.doc)), "ra": proj.pattrs(cl.doc.attrs), "version": cl.version,
                "unconf": [{"step": stepmod.pstep(s), "inv": stepmod.pstep(i)} for s, i in cl.unconf]}

    def _log(self, a, c, res, **kw):
        ev = {"ev": "Act", "tid": self.tid, "a": a, "c": c, "res": res, "step": {"type": "none"},
              "auth": self.b.doc(proj.proj(self.auth_doc)), "authra": proj.pattrs(self.auth_doc.attrs),
              "confirmed": self.b.doc(proj.proj(self.auth_doc)), "confirmedra": proj.pattrs(self.auth_doc.attrs)}
        ev.update(self._actor(c))
        ev.update(kw)
        self.ids.append(self.b.add(ev))
        return ev

    # -- protocol actions
    def edit(self, c, step):
        cl = self.clients[c]
        try:
            r = step.apply(cl.doc)
            if r.failed is not None:
                self._log("edit", c, {"kind": "failed"}, step=stepmod.pstep(step))
                return False
            inv = step.invert(cl.doc)
        except Exception as ex:  # noqa: BLE001
            self._log("edit", c, {"kind": "raise", "cls": type(ex).__name__}, step=stepmod.pstep(step))
            return False
        cl.unconf.append((step, inv))
        cl.doc = r.doc
        self.stats["edits"] += 1
        self._log("edit", c, {"kind": "ok"}, step=stepmod.pstep(step))
        return True

    def can_send(self, c):
        cl = self.clients[c]
        return bool(cl.unconf) and cl.version == len(self.auth_steps)

    def can_receive(self, c):
        return self.clients[c].version < len(self.auth_steps)

    def send(self, c):
        """The authority applies the steps itself (it never sees the client's document)."""
        cl = self.clients[c]
        doc = self.auth_doc
        try:
            # the steps travel as JSON text: the authority (and through its log every other client) works with
            # the decoded steps
            wire = [stepmod.via_json(self.schema, s) for s, _ in cl.unconf]
            for s in wire:
                r = s.apply(doc)
                if r.failed is not None:
                    raise ValueError("authority: " + r.failed)
                doc = r.doc
        except Exception as ex:  # noqa: BLE001
            self._log("send", c, {"kind": "raise", "cls": type(ex).__name__, "msg": str(ex)[:200]})
            return False
        self.auth_doc = doc
        self.auth_steps.extend(wire)
        cl.unconf = []
        cl.version = len(self.auth_steps)
        self.stats["sends"] += 1
        self._log("send", c, {"kind": "ok"})
        return True

    def receive(self, c):
        from prosemirror.transform import Transform
        cl = self.clients[c]
        remote = self.auth_steps[cl.version:]
        confirmed = None
        try:
            tr = Transform(cl.doc)
            for _s, inv in reversed(cl.unconf):
                tr.step(inv)
            for s in remote:
                tr.step(s)
            confirmed = tr.doc
            map_from = len(cl.unconf)
            out = []
            for s, _ in cl.unconf:
                mapped = s.map(tr.mapping.slice(map_from))
                map_from -= 1
                if mapped is not None and tr.maybe_step(mapped).failed is None:
                    tr.mapping.set_mirror(map_from, len(tr.steps) - 1)
                    out.append((mapped, mapped.invert(tr.docs[-1])))
                    self.stats["rebased"] += 1
                else:
                    self.stats["dropped"] += 1
            if len(cl.unconf) >= 2:
                self.stats["mirror"] += 1
        except Exception as ex:  # noqa: BLE001
            kw = {}
            if confirmed is not None:
                kw["confirmed"] = self.b.doc(proj.proj(confirmed))
                kw["confirmedra"] = proj.pattrs(confirmed.attrs)
            self._log("receive", c, {"kind": "raise", "cls": type(ex).__name__, "msg": str(ex)[:200]}, **kw)
            return False
        cl.doc, cl.unconf, cl.version = tr.doc, out, len(self.auth_steps)
        self.stats["receives"] += 1
        self._log("receive", c, {"kind": "ok"}, confirmed=self.b.doc(proj.proj(confirmed)), confirmedra=proj.pattrs(confirmed.attrs))
        return True

    # -- replay of a TLC behaviour (pipeline G): hist = [{a, c, step}]
    def replay(self, hist):
        for h in hist:
            if h["a"] == "edit":
                self.edit(h["c"], stepmod.mkstep(self.schema, h["step"]))
            elif h["a"] == "send":
                self.send(h["c"])
            else:
                self.receive(h["c"])

    def state(self):
        n = len(self.clients)
        return {"docs": [proj.proj(self.clients[c].doc) for c in range(1, n + 1)],
                "unconf": [len(self.clients[c].unconf) for c in range(1, n + 1)],
                "versions": [self.clients[c].version for c in range(1, n + 1)],
                "auth": proj.proj(self.auth_doc)}


def random_run(batch, tid, schema, base, n, rng, pick_steps, length=10):
    """A random schedule; pick_steps(doc) -> list of steps of one high-level operation on doc (may be empty)."""
    run = Run(batch, tid, schema, base, n)
    for _ in range(length):
        c = rng.randint(1, n)
        opts = ["edit", "edit"]
        if run.can_send(c):
            opts += ["send", "send"]
        if run.can_receive(c):
            opts += ["receive", "receive", "receive"]
        a = rng.choice(opts)
        if a == "edit":
            if len(run.clients[c].unconf) >= 4:
                continue
            for st in pick_steps(run.clients[c].doc)[:3]:
                if not run.edit(c, st):
                    break
        elif a == "send":
            run.send(c)
        else:
            run.receive(c)
    # quiesce: everybody receives, sends, receives
    for _round in range(n + 1):
        for c in range(1, n + 1):
            if run.can_receive(c):
                if not run.receive(c):
                    return run
            if run.can_send(c):
                run.send(c)
    return run


# ---------------------------------------------------------------------------------------------
# the stage used by check C04 (and reported in its evidence)

def _tok(k, t="", m=(), c=0, b=False):
    return {"k": k, "t": t, "a": {}, "m": list(m), "c": c, "b": b}


BASES = {
    "ab": [_tok("o", "p"), _tok("x", "text", (), 97, True), _tok("x", "text", (), 98), _tok("c")],
    "ab|c": [_tok("o", "p"), _tok("x", "text", (), 97, True), _tok("x", "text", (), 98), _tok("c"),
             _tok("o", "p"), _tok("x", "text", (), 99, True), _tok("c")],
}


def stage(tier, seed, rng, stats, out):
    """M: MC_Collab exhaustively (small) ; G: simulated behaviours of MC_Collab replayed through the library's
    protocol port, every action an event ; T: random runs on the bundled schemas with steps of real
    Transform operations.  All events judged by Trace_Collab."""
    import json
    from . import core, gen, ops, schemas, steps as stepmod2, tlc, trace, universe, watchdog
    from .core import Violation
    from prosemirror.transform import Transform
    thorough = tier == "thorough"
    sch, js = schemas.build("s1t")
    common = {"schema": js, "nclients": 2, "chars": [120], "marks": [universe.EM]}
    # ---- M
    configs = [("ab", 2, 1, 6, True)] if not thorough else [("ab", 2, 1, 6, True), ("ab", 3, 2, 5, False), ("ab|c", 2, 1, 10, True)]
    for bname, max_log, max_unconf, max_toks, rich in configs:
        path = tlc.write_input(dict(common, base=BASES[bname], maxLog=max_log, maxUnconf=max_unconf, maxToks=max_toks, rich=rich), "mccollab")
        r = tlc.run_tlc("MC_Collab", "MC_Collab.cfg", env={"PMV_INPUT": path}, timeout=6000)
        if not r.ok:
            raise core.MachineryError("MC_Collab: " + "; ".join(r.errors[:3]) + r.stdout[-2500:])
        stats.add_tlc(r, f"M MC_Collab[{bname} log<={max_log} unconf<={max_unconf} toks<={max_toks}{' rich' if rich else ''}]")
    # ---- M, liveness: total edits bounded by the log, weak fairness on send / receive: every behaviour ends
    # quiescent (all clients up to date, nothing unconfirmed); the safety invariants are checked again here,
    # with three clients
    live = [("ab", 2, 2, 1, 6, True), ("ab", 3, 3, 1, 5, False)] if not thorough else \
           [("ab", 2, 3, 2, 6, True), ("ab", 3, 3, 1, 5, False), ("ab", 3, 3, 2, 5, False)]
    for bname, ncl, max_log, max_unconf, max_toks, rich in live:
        path = tlc.write_input(dict(common, nclients=ncl, base=BASES[bname], maxLog=max_log, maxUnconf=max_unconf, maxToks=max_toks,
                                    rich=rich, live=True), "mccollab")
        r = tlc.run_tlc("MC_Collab", "MC_Collab_Live.cfg", env={"PMV_INPUT": path}, timeout=6000)
        if not r.ok:
            raise core.MachineryError("MC_Collab (liveness): " + "; ".join(r.errors[:3]) + r.stdout[-2500:])
        stats.add_tlc(r, f"M MC_Collab live[{bname} clients={ncl} log<={max_log} unconf<={max_unconf}{' rich' if rich else ''}]")
    # ---- G
    jobs = []
    agg = {}
    b = trace.Batch(js)
    tid = 0
    mismatches = 0
    for bname, num in (("ab|c", 10 if not thorough else 400), ("ab", 6 if not thorough else 200)):
        path = tlc.write_input(dict(common, base=BASES[bname], maxLog=5, maxUnconf=3, maxToks=12, rich=True), "gencollab")
        r = tlc.run_tlc("MC_Collab", "Gen_Collab.cfg", env={"PMV_INPUT": path}, workers=1, simulate=f"num={num}", depth=14,
                        seed=seed, timeout=6000, heap="4g")
        if r.errors or not r.printed:
            raise core.MachineryError("Gen_Collab: " + "; ".join(r.errors[:3]) + r.stdout[-1500:])
        stats.add_tlc(r, f"G Gen_Collab[{bname}]")
        exp = {json.dumps(e["hist"], sort_keys=True): e for e in r.printed}
        pref = set()
        for e in exp.values():
            h = e["hist"]
            for k in range(1, len(h)):
                pref.add(json.dumps(h[:k], sort_keys=True))
        rbase = proj.unproj(sch, BASES[bname])
        for key, e in exp.items():
            if key in pref:
                continue
            tid += 1
            run = Run(b, tid, sch, rbase, 2)
            h = e["hist"]
            for k, act in enumerate(h):
                run.replay([act])
                want = exp.get(json.dumps(h[:k + 1], sort_keys=True))
                if want is not None:
                    st = run.state()
                    w = {"docs": [gen.norm_tokens(d) for d in want["docs"]], "unconf": want["unconf"],
                         "versions": want["versions"], "auth": gen.norm_tokens(want["auth"])}
                    if st != w:
                        mismatches += 1
            for k2, v in run.stats.items():
                agg[k2] = agg.get(k2, 0) + v
    stats.bounds["collab_spec_state_mismatches"] = mismatches
    jobs.append(("Trace_Collab", b, "G+T collab[s1t]"))
    # ---- T random runs
    n_runs = 60 if not thorough else 600
    for name in schemas.BUNDLED_PLUS:
        sch2, js2, pairs = universe.random_docs(name, n_runs, rng)
        slices = []
        for toks, rd in pairs:
            n = rd.content.size
            for _ in range(3):
                f = rng.randint(0, n)
                t = rng.randint(f, n)
                try:
                    slices.append(rd.slice(f, t))
                except Exception:  # noqa: BLE001
                    pass
        sg = stepmod2.StepGen(sch2, js2, rng, slices)
        og = ops.OpGen(sch2, js2, rng, slices, sg)

        def pick_steps(doc):
            tr = Transform(doc)
            _n, _a, thunk = og.pick(tr)
            watchdog.call(lambda: ops.run_op(thunk), 5.0)
            return list(tr.steps)
        b2 = trace.Batch(js2)
        for toks, rd in pairs:
            tid += 1
            run = random_run(b2, tid, sch2, rd, rng.choice((2, 2, 3)), rng, pick_steps, length=rng.randint(8, 24))
            for k2, v in run.stats.items():
                agg[k2] = agg.get(k2, 0) + v
        jobs.append(("Trace_Collab", b2, f"T collab[{name}]"))
    vs = trace.validate_many(jobs, stats)
    for (mod, bb, what), verdicts in zip(jobs, vs):
        for e in bb.events:
            v = verdicts[e["id"]]
            if e["ev"] == "Begin":
                continue
            stats.traces += 1
            stats.count(f"collab:{e['a']}:{v.split(':')[0]}")
            stats.count(f"collab-job:{what}:{e['a']}")
            stats.count(f"verdict:{v}")
            if v.startswith("skip"):
                stats.skipped += 1
            elif v.startswith("drift"):
                stats.drift += 1
                if len(stats.drift_samples) < 6:
                    stats.drift_samples.append({"verdict": v, "op": "collab " + e["a"], "args": json.dumps(e["unconf"])[:300]})
            stats.case({"collab": e["a"], "c": e["c"], "step": {k2: v2 for k2, v2 in e["step"].items() if k2 != "slice"},
                        "doc": e["doc"], "tid": e["tid"], "what": what}, nontrivial=e["a"] == "receive" and not v.startswith("skip"))
            if v.startswith("bad:"):
                sig = {"op": "collab-" + e["a"]}
                if e["res"].get("cls"):
                    sig["exc"] = e["res"]["cls"]
                hist = [x for x in bb.events if x.get("tid") == e["tid"] and x["id"] <= e["id"]]
                out.append(Violation(v[4:], "collab protocol over Transform/Mapping/Step.map/Step.invert",
                                     f"{what}: run {e['tid']} action {e['a']} client {e['c']} res={e['res']}",
                                     {"schema": bb.schema_js["name"], "history": [{k2: v2 for k2, v2 in x.items()} for x in hist],
                                      "docs": {str(i): bb.docs[i - 1] for x in hist for i in [x.get("doc"), x.get("auth"), x.get("confirmed"), x.get("base")] if i}},
                                     sig))
    for k2, v in agg.items():
        stats.count("collab-run:" + k2, v)
    for key, least in (("collab:receive:ok", 100), ("collab:send:ok", 100), ("collab-run:rebased", 100), ("collab-run:dropped", 3), ("collab-run:mirror", 20)):
        if stats.counts.get(key, 0) < least:
            core.vacuity(out, f"vacuity gate: {key}={stats.counts.get(key, 0)} < {least}")
