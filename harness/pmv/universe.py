"""Document universes: TLC-generated exhaustive sets (pipeline G) and seeded random ones."""
from __future__ import annotations

import random

from . import core, gen, proj, schemas, tlc

EM = {"t": "em", "a": "{}"}
LINK = {"t": "link", "a": "{\"href\":\"u\"}"}


def tlc_docs(schema_name: str, bounds: dict, stats: core.Stats, root: str | None = None):
    """Every valid document of the schema within the shape bounds, enumerated by TLC
    from the document grammar machine (spec/PMDocGrammar.tla)."""
    sch, js = schemas.build(schema_name)
    g = dict(bounds)
    if root:
        g["root"] = root
    path = tlc.write_input({"schema": js, "gen": g}, "docgen")
    r = tlc.run_tlc("MC_DocGen", "Gen_DocGen.cfg", env={"PMV_INPUT": path}, workers=1, heap="6g")
    if not r.ok:
        raise core.MachineryError("MC_DocGen generator failed: " + "; ".join(r.errors[:3]) + r.stdout[-1500:])
    stats.add_tlc(r, f"G MC_DocGen[{schema_name}]")
    docs = [gen.norm_tokens(p["toks"]) for p in r.printed]
    if not docs:
        raise core.MachineryError("MC_DocGen printed no documents")
    return sch, js, docs


def bounds(max_toks, max_depth=3, max_run=2, chars=(97,), marksets=((), (EM,)), attrs=None, max_kids=0):
    return {"maxToks": max_toks, "maxDepth": max_depth, "maxRun": max_run, "maxKids": max_kids,
            "chars": list(chars), "marksets": [list(m) for m in marksets], "attrs": attrs or {}}


def random_docs(schema_name: str, n: int, rng: random.Random, size=1.0, max_depth=5, alphabet=None):
    sch, js = schemas.build(schema_name)
    g = gen.DocGen(js, rng, max_depth=max_depth, size=size, alphabet=alphabet)
    out = []
    for _ in range(n):
        toks = g.doc()
        try:
            rd = proj.unproj(sch, toks)
            # the document as the library sees it (e.g. explicit null attributes are defaulted on construction)
            out.append((proj.proj(rd), rd))
        except Exception:  # generator produced something the library refuses to build: not a case
            continue
    return sch, js, out


def shaped_test_docs(name="test"):
    """Hand-shaped documents of the bundled test schema: textblocks with several differently marked inline children
    next to a code block (which forbids marks), also nested.  (schema, exported js, [(tokens, document)])"""
    from . import proj, schemas
    sch, js = schemas.build(name)
    em, strong = sch.marks["em"].create(), sch.marks["strong"].create()
    link = sch.marks["link"].create({"href": "u"})
    tx = lambda c, *ms: sch.text(c, list(ms))                                  # noqa: E731
    P = lambda *k: sch.node("paragraph", None, list(k))                       # noqa: E731
    CB = lambda *k: sch.node("code_block", None, list(k))                     # noqa: E731
    H = lambda *k: sch.node("heading", {"level": 1}, list(k))                 # noqa: E731
    img = sch.node("image", {"src": "s"})
    docs = [
        sch.node("doc", None, [CB(tx("foo")), P(tx("bar "), tx("baz", em), img)]),
        sch.node("doc", None, [P(tx("a"), tx("b", strong), tx(" c")), CB(tx("x")), H(tx("t "), tx("u", em), tx(" v"))]),
        sch.node("doc", None, [sch.node("blockquote", None, [CB(tx("q")), P(tx("r "), tx("s", link), tx(" t", em))]), P(tx("z"))]),
        sch.node("doc", None, [CB(), P(tx("plain "), tx("marked", em, strong)), CB(tx("y"))]),
    ]
    return sch, js, [(proj.proj(d), d) for d in docs]
