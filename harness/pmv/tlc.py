"""Running TLC and reading what it printed.

Every TLC run gets its input (schema, events, bounds) through the JSON file named
by the environment variable PMV_INPUT and through other PMV_* variables; the
specification reads them with IOEnv / JsonDeserialize, so there is one source of
truth for the harness and the model checker.
"""
from __future__ import annotations

import json
import os
import re
import shutil
import subprocess
import tempfile
import time
from concurrent.futures import ThreadPoolExecutor
from dataclasses import dataclass, field

VERIF = os.path.dirname(os.path.dirname(os.path.dirname(os.path.abspath(__file__))))
SPEC = os.path.join(VERIF, "spec")
WORK = os.path.join(VERIF, ".work", str(os.getpid()))
JAR = "/opt/veriftools/tla/tla2tools.jar"


@dataclass
class TLCResult:
    ok: bool                     # TLC finished without reporting an error
    states: int = 0              # states generated
    distinct: int = 0            # distinct states
    printed: list = field(default_factory=list)   # decoded PrintT(ToJson(..)) values
    raw_prints: list = field(default_factory=list)  # PrintT lines that are not JSON strings
    errors: list = field(default_factory=list)    # "Invariant X is violated" etc.
    stdout: str = ""
    wall_s: float = 0.0
    cmd: str = ""
    coverage: dict = field(default_factory=dict)
    timed_out: bool = False


def workdir(tag: str) -> str:
    os.makedirs(WORK, exist_ok=True)
    return tempfile.mkdtemp(prefix=tag + "-", dir=WORK)


def cleanup(path: str) -> None:
    shutil.rmtree(path, ignore_errors=True)


_STATES = re.compile(r"^(\d+) states generated, (\d+) distinct states found", re.M)
_SIM = re.compile(r"The number of states generated: (\d+)")
_JSONLINE = re.compile(r'^"(\{|\[).*"$')


def _decode_prints(stdout: str):
    printed, raw = [], []
    for line in stdout.splitlines():
        if _JSONLINE.match(line):
            try:
                printed.append(json.loads(json.loads(line)))
                continue
            except Exception:
                pass
        if line.startswith("<<") or line.startswith("[ ") or line.startswith("{"):
            raw.append(line)
    return printed, raw


def run_tlc(module: str, cfg: str, *, env: dict | None = None, workers: int = 16,
            simulate: str | None = None, depth: int | None = None, timeout: int = 1800,
            seed: int | None = None, coverage: bool = False, heap: str = "8g",
            extra: list | None = None, subdir: str = "mc") -> TLCResult:
    """Run TLC on spec/<subdir>/<module>.tla with the given cfg (same directory)."""
    wd = workdir("tlc")
    moddir = os.path.join(SPEC, subdir)
    e = dict(os.environ)
    e.update({k: str(v) for k, v in (env or {}).items()})
    jopts = ["-Xss256m", f"-Xmx{heap}", f"-DTLA-Library={SPEC}", f"-Djava.io.tmpdir={wd}", *(os.environ.get("PMV_GC") or ("-XX:+UseParallelGC" if workers > 1 else "-XX:+UseSerialGC -XX:TieredStopAtLevel=1")).split()]
    cmd = ["java", *jopts, "-cp", JAR, "tlc2.TLC", "-workers", str(workers),
           "-metadir", os.path.join(wd, "meta"), "-noGenerateSpecTE",
           "-config", os.path.join(moddir, cfg)]
    if simulate is not None:
        cmd += ["-simulate", simulate]
    if depth is not None:
        cmd += ["-depth", str(depth)]
    if seed is not None:
        cmd += ["-seed", str(seed)]
    if coverage:
        cmd += ["-coverage", "1"]
    cmd += list(extra or [])
    cmd.append(os.path.join(moddir, module + ".tla"))
    t0 = time.time()
    timed_out = False
    try:
        p = subprocess.run(cmd, env=e, cwd=wd, capture_output=True, text=True, timeout=timeout)
        out = p.stdout + p.stderr
        rc = p.returncode
    except subprocess.TimeoutExpired as ex:
        out = (ex.stdout or b"").decode("utf-8", "replace") if isinstance(ex.stdout, bytes) else (ex.stdout or "")
        rc = -9
        timed_out = True
    wall = time.time() - t0
    cleanup(wd)
    res = TLCResult(ok=False, stdout=out, wall_s=wall, cmd=" ".join(cmd), timed_out=timed_out)
    m = None
    for m in _STATES.finditer(out):
        pass
    if m:
        res.states, res.distinct = int(m.group(1)), int(m.group(2))
    else:
        m2 = _SIM.search(out)
        if m2:
            res.states = res.distinct = int(m2.group(1))
    res.errors = [ln for ln in out.splitlines() if ln.startswith("Error:")]
    res.printed, res.raw_prints = _decode_prints(out)
    finished = ("Model checking completed. No error has been found." in out
                or (simulate is not None and not res.errors and rc in (0,)))
    res.ok = bool(finished and not res.errors and not timed_out)
    if coverage:
        res.coverage = parse_coverage(out)
    return res


_COV = re.compile(r"^<(\w+) line (\d+), col \d+ to line \d+, col \d+ of module (\w+)>: (\d+):(\d+)", re.M)


def parse_coverage(out: str) -> dict:
    cov = {}
    for m in _COV.finditer(out):
        cov[m.group(1)] = {"distinct": int(m.group(4)), "taken": int(m.group(5))}
    return cov


def run_sharded(module: str, cfg: str, shards: list[dict], *, timeout: int = 1800,
                parallel: int = 16, heap: str = "3g", subdir: str = "trace") -> list[TLCResult]:
    """Run one single-worker TLC process per shard (each shard is an env dict)."""
    def one(env):
        return run_tlc(module, cfg, env=env, workers=1, timeout=timeout, heap=heap, subdir=subdir)
    with ThreadPoolExecutor(max_workers=parallel) as ex:
        return list(ex.map(one, shards))


def write_input(obj, tag: str = "in") -> str:
    wd = workdir(tag)
    path = os.path.join(wd, "input.json")
    with open(path, "w") as f:
        json.dump(obj, f, separators=(",", ":"))
    return path


APALACHE_LAWS = ["Monotonic", "SideOrder", "NonNegative", "SidesAgreeOutside", "InverseOutside", "BeyondShift"]


def run_apalache(module: str, inv: str, *, length: int = 0, timeout: int = 600):
    """apalache-mc check --init=Init --next=Next --length=<n> --inv=<inv> on spec/apalache/<module>.tla.
    Returns (ok, wall seconds, tail of the output)."""
    wd = workdir("apa")
    moddir = os.path.join(SPEC, "apalache")
    cmd = ["apalache-mc", "check", "--init=Init", "--next=Next", f"--length={length}", f"--inv={inv}",
           f"--out-dir={os.path.join(wd, 'out')}", f"--run-dir={os.path.join(wd, 'run')}", os.path.join(moddir, module + ".tla")]
    t0 = time.time()
    try:
        p = subprocess.run(cmd, cwd=wd, capture_output=True, text=True, timeout=timeout)
        out = p.stdout + p.stderr
    except subprocess.TimeoutExpired as ex:
        out = "timeout " + str(ex)
    wall = time.time() - t0
    cleanup(wd)
    return ("The outcome is: NoError" in out), wall, out[-1200:]
