"""Run the repository's own test-suite under the tracer plug-in and turn what it recorded into batches."""
from __future__ import annotations

import json
import os
import subprocess

from . import core, tlc, trace


def record(repo=None, timeout=600):
    repo = repo or os.environ.get("PMV_REPO", "/repo")
    wd = tlc.workdir("suite")
    out = os.path.join(wd, "suite.json")
    env = dict(os.environ, PMV_TRACE=out, PYTHONPATH=f"{os.path.join(tlc.VERIF, 'harness')}:{repo}", PYTHONHASHSEED="0", PYTHONDONTWRITEBYTECODE="1")
    p = subprocess.run(["/venv/bin/python", "-m", "pytest", "-q", "-p", "no:cacheprovider", "-p", "pmv.pmv_tracer", "--timeout=600", "tests"],
                       cwd=repo, env=env, capture_output=True, text=True, timeout=timeout)
    if not os.path.exists(out):
        raise core.MachineryError("tracer produced no trace: " + p.stdout[-800:] + p.stderr[-800:])
    with open(out) as f:
        data = json.load(f)
    return data, p.stdout.strip().splitlines()[-1] if p.stdout.strip() else ""


def batches(data, kinds):
    """One Batch per schema with the recorded events of the given kinds (Apply -> Apply + StepMap)."""
    out = []
    for sid, js in data["schemas"].items():
        b = trace.Batch(js)
        seen = set()
        for ev in data["events"].get(sid, []):
            if ev["ev"] not in kinds:
                continue
            key = json.dumps(ev, sort_keys=True)
            if key in seen:
                continue
            seen.add(key)
            e = dict(ev)
            e["di"] = b.doc(e.pop("doc"))
            if e["ev"] == "Replace":
                e["si"] = b.slice(e.pop("slice"))
            mp = e.pop("map", None)
            b.add(e)
            if e["ev"] == "Apply" and mp is not None and "StepMap" in kinds:
                b.add({"ev": "StepMap", "di": e["di"], "step": e["step"], "res": e["res"], "out": e["out"], "map": mp, "mapped": [], "tag": "testsuite"})
        if b.events:
            out.append(b)
    return out


def transform_calls(data):
    """The Transform operations the test-suite performed, per schema: [(real Schema, exported js, [call...])].
    A call holds the projected document before the operation and its arguments (see pmv_tracer)."""
    from prosemirror.model import Schema
    out = []
    by = {}
    for sid, rec in data.get("calls", []):
        by.setdefault(sid, []).append(rec)
    for sid, recs in by.items():
        spec, js = data.get("specs", {}).get(sid), data["schemas"].get(sid)
        if spec is None or js is None:
            continue
        try:
            sch = Schema(spec)
        except Exception:  # noqa: BLE001
            continue
        seen, uniq = set(), []
        for r in recs:
            k = json.dumps(r, sort_keys=True)
            if k not in seen:
                seen.add(k)
                uniq.append(r)
        out.append((sch, js, uniq))
    return out


def replay_calls(kind):
    """Batches (one per schema of the test-suite) with the suite's own Transform operations of the given kind
    ("replace" = the seven replace-family operations, "mark" = add_mark / remove_mark) re-executed on a fresh
    Transform of the recorded document and recorded as the usual operation events.  Returns ([(Batch, what)], note)."""
    from . import opdrive, proj, schemas
    data, last = record()
    bundled_nodes = set(schemas.build("test")[0].nodes)
    jobs = []
    for sch, js, calls in transform_calls(data):
        b = trace.Batch(js)
        total = set(sch.nodes) == bundled_nodes        # "never raises" is claimed for the bundled family only
        for c in calls:
            try:
                rd = proj.unproj(sch, c["doc"], {k: json.loads(v) for k, v in c["ra"].items()} or None)
                di = b.doc(proj.proj(rd))
                f, t = c["from"], c["to"]
                if kind == "replace" and c["op"] in ("replace", "replace_range"):
                    opdrive.ev_replace_family(b, rd, di, c["op"], f, t, proj.unproj_slice(sch, c["slice"]), total)
                elif kind == "replace" and c["op"] in ("delete", "delete_range"):
                    opdrive.ev_replace_family(b, rd, di, c["op"], f, t, None, total)
                elif kind == "replace" and c["op"] in ("replace_with", "replace_range_with", "insert"):
                    frag = proj.unproj_slice(sch, c["slice"]).content
                    if frag.child_count == 1:
                        opdrive.ev_replace_family(b, rd, di, c["op"], f, t, frag.first_child, total)
                elif kind == "mark" and c["op"] == "add_mark":
                    from .steps import mk_mark
                    opdrive.ev_mark_op(b, rd, di, "add_mark", f, t, mark=mk_mark(sch, c["mark"]), total=total)
                elif kind == "mark" and c["op"] == "remove_mark":
                    from .steps import mk_mark
                    if c.get("mark"):
                        opdrive.ev_mark_op(b, rd, di, "remove_mark", f, t, mark=mk_mark(sch, c["mark"]), total=total)
                    elif c.get("mtype"):
                        opdrive.ev_mark_op(b, rd, di, "remove_mark_type", f, t, mtype=sch.marks[c["mtype"]], total=total)
                    else:
                        opdrive.ev_mark_op(b, rd, di, "remove_mark_all", f, t, total=total)
            except Exception:  # noqa: BLE001 - a call the harness cannot rebuild: not a case
                continue
        if b.events:
            jobs.append((b, f"T testsuite[{js['name']}]"))
    return jobs, f"repository test-suite under the tracer: {last}"


def call_thunk(sch, c):
    """fn(tr) performing the recorded Transform operation `c` (None if the harness cannot rebuild it)."""
    from . import proj
    from .steps import mk_mark
    f, t, op = c["from"], c["to"], c["op"]
    if op in ("replace", "replace_range"):
        sl = proj.unproj_slice(sch, c["slice"])
        return (lambda tr: tr.replace(f, t, sl)) if op == "replace" else (lambda tr: tr.replace_range(f, t, sl))
    if op in ("delete", "delete_range"):
        return (lambda tr: tr.delete(f, t)) if op == "delete" else (lambda tr: tr.delete_range(f, t))
    if op in ("replace_with", "replace_range_with", "insert"):
        frag = proj.unproj_slice(sch, c["slice"]).content
        if op == "replace_with":
            return lambda tr: tr.replace_with(f, t, frag)
        if op == "insert":
            return lambda tr: tr.insert(f, frag)
        return (lambda tr: tr.replace_range_with(f, t, frag.first_child)) if frag.child_count == 1 else None
    if op == "add_mark":
        m = mk_mark(sch, c["mark"])
        return lambda tr: tr.add_mark(f, t, m)
    if op == "remove_mark":
        m = mk_mark(sch, c["mark"]) if c.get("mark") else (sch.marks[c["mtype"]] if c.get("mtype") else None)
        return lambda tr: tr.remove_mark(f, t, m)
    return None


def sessions_of_calls():
    """One single-operation Transform session per recorded call of the test-suite, observed for Trace_Transform."""
    from prosemirror.transform import Transform

    from . import ops, proj, sessions
    data, last = record()
    jobs = []
    tid = 900000
    from . import schemas
    ref = schemas.build("test")[0]
    for sch, js, calls in transform_calls(data):
        # C04 quantifies over the bundled schemas and their variants: sessions on the ad-hoc schemas some tests
        # build (e.g. a mark type that does not exclude itself, where undo restores the marks in another order)
        # are outside it
        if set(sch.nodes) != set(ref.nodes) or set(sch.marks) != set(ref.marks):
            continue
        b = trace.Batch(js)
        for c in calls:
            try:
                rd = proj.unproj(sch, c["doc"], {k: json.loads(v) for k, v in c["ra"].items()} or None)
                fn = call_thunk(sch, c)
            except Exception:  # noqa: BLE001
                continue
            if fn is None:
                continue
            tid += 1
            tr = Transform(rd)
            b.add({"ev": "Begin", "tid": tid, "seq": 0, "doc": b.doc(proj.proj(rd)), "ra": proj.pattrs(rd.attrs)})
            res = ops.run_op(lambda fn=fn, tr=tr: fn(tr))
            sessions.observe(b, tr, tid, 1, c["op"], {k: v for k, v in c.items() if k in ("from", "to")}, res)
        if b.events:
            jobs.append((b, f"T testsuite sessions[{js['name']}]"))
    return jobs, f"repository test-suite under the tracer: {last}"
