"""Run the repository's own test-suite under the tracer plug-in and turn what it recorded into batches."""
from __future__ import annotations

import json
import os
import subprocess

from . import core, tlc, trace


def record(repo=None, timeout=600):
    repo = repo or os.environ.get("PMV_REPO", "/repo")
    wd = tlc.workdir("suite")
    out = os.path.join(wd, "suite.json")
    env = dict(os.environ, PMV_TRACE=out, PYTHONPATH=f"{os.path.join(tlc.VERIF, 'harness')}:{repo}", PYTHONHASHSEED="0", PYTHONDONTWRITEBYTECODE="1")
    p = subprocess.run(["/venv/bin/python", "-m", "pytest", "-q", "-p", "no:cacheprovider", "-p", "pmv.pmv_tracer", "--timeout=600", "tests"],
                       cwd=repo, env=env, capture_output=True, text=True, timeout=timeout)
    if not os.path.exists(out):
        raise core.MachineryError("tracer produced no trace: " + p.stdout[-800:] + p.stderr[-800:])
    with open(out) as f:
        data = json.load(f)
    return data, p.stdout.strip().splitlines()[-1] if p.stdout.strip() else ""


def batches(data, kinds):
    """One Batch per schema with the recorded events of the given kinds (Apply -> Apply + StepMap)."""
    out = []
    for sid, js in data["schemas"].items():
        b = trace.Batch(js)
        seen = set()
        for ev in data["events"].get(sid, []):
            if ev["ev"] not in kinds:
                continue
            key = json.dumps(ev, sort_keys=True)
            if key in seen:
                continue
            seen.add(key)
            e = dict(ev)
            e["di"] = b.doc(e.pop("doc"))
            if e["ev"] == "Replace":
                e["si"] = b.slice(e.pop("slice"))
            mp = e.pop("map", None)
            b.add(e)
            if e["ev"] == "Apply" and mp is not None and "StepMap" in kinds:
                b.add({"ev": "StepMap", "di": e["di"], "step": e["step"], "res": e["res"], "out": e["out"], "map": mp, "tag": "testsuite"})
        if b.events:
            out.append(b)
    return out
