"""Events for high-level operations ("OpC") and structure helpers ("Helper"),
validated by spec/trace/Trace_Ops.tla."""
from __future__ import annotations

import json
import random

from . import ops, proj, steps as stepmod, watchdog

EMPTY_SLICE = {"toks": [], "os": 0, "oe": 0}


def _res(kind_val):
    k, v = kind_val
    if k == "ok":
        return {"kind": "ok"}
    if k == "timeout":
        return {"kind": "raise", "cls": "Timeout", "valueerror": False, "msg": "watchdog"}
    return {"kind": "raise", "cls": type(v).__name__, "valueerror": isinstance(v, ValueError), "msg": str(v)[:120]}


def run_transform(rd, fn, seconds=5.0):
    """Apply fn(tr) to a fresh Transform; returns (res record, tr)."""
    from prosemirror.transform import Transform
    tr = Transform(rd)
    r = watchdog.call(lambda: fn(tr), seconds)
    return _res(r), tr


def base_event(b, rd, di, op, res, tr, total, **fields):
    ev = {"ev": "OpC", "di": di, "op": op, "res": res, "total": bool(total), "ra": proj.pattrs(rd.attrs),
          "from": 0, "to": 0, "pos": 0, "si": b.slice(EMPTY_SLICE)}
    ev.update(fields)
    if res["kind"] == "ok":
        ev["out"] = proj.proj(tr.doc)
        ev["outra"] = proj.pattrs(tr.doc.attrs)
        ev["nsteps"] = len(tr.steps)
    else:
        ev["out"] = []
        ev["outra"] = {}
        ev["nsteps"] = len(tr.steps)
    return b.add(ev)


# ------------------------------------------------------------------ replace family

def ev_replace_family(b, rd, di, op, f, t, payload, total):
    """payload: Slice for replace/replace_range; Node for *_with / insert; None for deletions."""
    from prosemirror.model import Fragment, Slice
    if op in ("replace", "replace_range"):
        sl = payload
        fn = (lambda tr: tr.replace(f, t, sl)) if op == "replace" else (lambda tr: tr.replace_range(f, t, sl))
    elif op in ("replace_with", "insert", "replace_range_with"):
        sl = Slice(Fragment.from_(payload), 0, 0)
        if op == "replace_with":
            fn = lambda tr: tr.replace_with(f, t, payload)
        elif op == "insert":
            fn = lambda tr: tr.insert(f, payload)
        else:
            fn = lambda tr: tr.replace_range_with(f, t, payload)
    else:
        sl = Slice.empty
        fn = (lambda tr: tr.delete(f, t)) if op == "delete" else (lambda tr: tr.delete_range(f, t))
    res, tr = run_transform(rd, fn)
    return base_event(b, rd, di, op, res, tr, total, **{"from": f, "to": t if op != "insert" else f,
                                                          "si": b.slice(proj.proj_slice(sl))})


# ------------------------------------------------------------------ mark / node ops (C13)

def ev_mark_op(b, rd, di, op, f, t, mark=None, mtype=None, total=True):
    if op == "add_mark":
        res, tr = run_transform(rd, lambda tr: tr.add_mark(f, t, mark))
        return base_event(b, rd, di, op, res, tr, total, **{"from": f, "to": t, "mark": proj.pmark(mark)})
    if op == "remove_mark":
        res, tr = run_transform(rd, lambda tr: tr.remove_mark(f, t, mark))
        what = {"kind": "mark", "mark": proj.pmark(mark), "type": mark.type.name}
    elif op == "remove_mark_type":
        res, tr = run_transform(rd, lambda tr: tr.remove_mark(f, t, mtype))
        what = {"kind": "type", "mark": {"t": mtype.name, "a": "{}"}, "type": mtype.name}
    else:
        res, tr = run_transform(rd, lambda tr: tr.remove_mark(f, t, None))
        what = {"kind": "all", "mark": {"t": "", "a": "{}"}, "type": ""}
    return base_event(b, rd, di, op, res, tr, total, **{"from": f, "to": t, "what": what})


def ev_node_op(b, sch, rd, di, op, pos, total=True, mark=None, attr=None, value=None, ntype=None, attrs=None, marks=None):
    from prosemirror.transform import AddNodeMarkStep, AttrStep, RemoveNodeMarkStep
    if op == "add_node_mark":
        res, tr = run_transform(rd, lambda tr: tr.add_node_mark(pos, mark))
        step = stepmod.pstep(AddNodeMarkStep(pos, mark))
        return base_event(b, rd, di, op, res, tr, total, pos=pos, step=step)
    if op == "remove_node_mark":
        res, tr = run_transform(rd, lambda tr: tr.remove_node_mark(pos, mark))
        step = stepmod.pstep(RemoveNodeMarkStep(pos, mark))
        return base_event(b, rd, di, op, res, tr, total, pos=pos, step=step)
    if op == "set_node_attribute":
        res, tr = run_transform(rd, lambda tr: tr.set_node_attribute(pos, attr, value))
        step = stepmod.pstep(AttrStep(pos, attr, value))
        return base_event(b, rd, di, op, res, tr, total, pos=pos, step=step)
    if op == "set_node_markup":
        node = rd.node_at(pos)
        res, tr = run_transform(rd, lambda tr: tr.set_node_markup(pos, ntype, attrs, marks))
        nt = ntype or node.type
        try:
            full = nt.compute_attrs(attrs)
        except Exception:  # noqa: BLE001
            full = attrs or {}
        tgt = {"t": nt.name, "a": proj.pattrs(full), "m": proj.pmarks(marks or node.marks)}
        return base_event(b, rd, di, op, res, tr, total, pos=pos, tgt=tgt)
    raise ValueError(op)


def ev_set_block_type(b, rd, di, f, t, ntype, attrs, total=True):
    res, tr = run_transform(rd, lambda tr: tr.set_block_type(f, t, ntype, attrs))
    try:
        full = ntype.compute_attrs(attrs)
    except Exception:  # noqa: BLE001
        full = attrs or {}
    tgt = {"t": ntype.name, "a": proj.pattrs(full), "m": []}
    return base_event(b, rd, di, "set_block_type", res, tr, total, **{"from": f, "to": t, "tgt": tgt})


# ------------------------------------------------------------------ helpers (C12 / C18)

def _helper(b, rd, di, helper, call, total, approve, inrange, edit, **fields):
    """call(): helper value; approve(val) -> bool; inrange(val) -> bool; edit(tr, val) performs the edit."""
    k, v = watchdog.call(call, 3.0)
    ev = {"ev": "Helper", "di": di, "helper": helper, "total": bool(total), "pos": 0, "depth": 0, "from": 0, "to": 0,
          "after": [], "joinpos": 0, "rstart": 0, "rend": 0, "wrappers": [], "approved": False, "inrange": True,
          "edit": {"kind": "none", "out": []}}
    ev.update(fields)
    if k != "ok":
        ev["res"] = _res((k, v))
        return b.add(ev)
    ev["res"] = {"kind": "ok", "none": v is None, "val": v if isinstance(v, (bool, int)) else (0 if v is None else 1)}
    try:
        ev["inrange"] = bool(inrange(v))
        ev["approved"] = bool(approve(v))
    except Exception:  # noqa: BLE001
        ev["inrange"] = False
    if ev["approved"] and ev["inrange"]:
        extra = {}
        res, tr = run_transform(rd, lambda tr: edit(tr, v, extra))
        ev["edit"] = {"kind": res["kind"], "cls": res.get("cls", ""), "msg": res.get("msg", ""),
                      "out": proj.proj(tr.doc) if res["kind"] == "ok" else []}
        ev.update(extra)
    return b.add(ev)


def ev_can_split(b, rd, di, pos, depth, total, types_after=None):
    from prosemirror.transform import can_split
    after = [{"t": ta.type.name, "a": proj.pattrs(ta.type.compute_attrs(ta.attrs))} if ta else {"t": "", "a": {}} for ta in (types_after or [])]
    return _helper(b, rd, di, "can_split", lambda: can_split(rd, pos, depth, types_after), total,
                   approve=lambda v: v is True, inrange=lambda v: isinstance(v, bool),
                   edit=lambda tr, v, x: tr.split(pos, depth, types_after), pos=pos, depth=depth, after=after)


def ev_can_join(b, rd, di, pos, total):
    from prosemirror.transform import can_join
    return _helper(b, rd, di, "can_join", lambda: can_join(rd, pos), total,
                   approve=lambda v: v is True, inrange=lambda v: v is None or isinstance(v, bool),
                   edit=lambda tr, v, x: tr.join(pos), pos=pos, joinpos=pos)


def ev_join_point(b, rd, di, pos, direction, total):
    from prosemirror.transform import join_point
    size = rd.content.size

    def edit(tr, v, x):
        x["joinpos"] = v
        tr.join(v)
    return _helper(b, rd, di, "join_point", lambda: join_point(rd, pos, direction), total,
                   approve=lambda v: v is not None, inrange=lambda v: v is None or (isinstance(v, int) and 0 <= v <= size),
                   edit=edit, pos=pos, depth=direction)


def ev_lift_target(b, rd, di, f, t, total):
    from prosemirror.transform import lift_target
    rp, rq = rd.resolve(f), rd.resolve(t)
    rng_ = rp.block_range(rq)
    if rng_ is None:
        return None
    return _helper(b, rd, di, "lift_target", lambda: lift_target(rng_), total,
                   approve=lambda v: v is not None, inrange=lambda v: v is None or (isinstance(v, int) and 0 <= v <= rng_.depth),
                   edit=lambda tr, v, x: tr.lift(rng_, v), **{"from": f, "to": t, "rstart": rng_.start, "rend": rng_.end})


def ev_find_wrapping(b, rd, di, f, t, ntype, total):
    from prosemirror.transform import find_wrapping
    rp, rq = rd.resolve(f), rd.resolve(t)
    rng_ = rp.block_range(rq)
    if rng_ is None:
        return None
    attrs = {a: "v" for a in ntype.attrs if ntype.attrs[a].is_required} or None

    def edit(tr, v, x):
        x["wrappers"] = [{"t": w.type.name, "a": proj.pattrs(w.type.compute_attrs(w.attrs))} for w in v]
        tr.wrap(rng_, v)
    return _helper(b, rd, di, "find_wrapping", lambda: find_wrapping(rng_, ntype, attrs), total,
                   approve=lambda v: v is not None, inrange=lambda v: v is None or isinstance(v, list),
                   edit=edit, **{"from": f, "to": t, "rstart": rng_.start, "rend": rng_.end, "ntype": ntype.name})


def ev_insert_point(b, rd, di, pos, ntype, total):
    from prosemirror.model import Fragment, Slice
    from prosemirror.transform import insert_point
    size = rd.content.size
    attrs = {a: "v" for a in ntype.attrs if ntype.attrs[a].is_required} or None
    node = ntype.create_and_fill(attrs)
    if node is None:
        return None

    def edit(tr, v, x):
        # a plain replace: the helper promises the node can be placed exactly there
        tr.step(__import__("prosemirror.transform", fromlist=["ReplaceStep"]).ReplaceStep(v, v, Slice(Fragment.from_(node), 0, 0)))
    return _helper(b, rd, di, "insert_point", lambda: insert_point(rd, pos, ntype), total,
                   approve=lambda v: v is not None, inrange=lambda v: v is None or (isinstance(v, int) and 0 <= v <= size),
                   edit=edit, pos=pos, ntype=ntype.name)


def ev_drop_point(b, rd, di, pos, sl, total):
    from prosemirror.transform import drop_point
    size = rd.content.size
    return _helper(b, rd, di, "drop_point", lambda: drop_point(rd, pos, sl), total,
                   approve=lambda v: v is not None and sl.size > 0, inrange=lambda v: v is None or (isinstance(v, int) and 0 <= v <= size),
                   edit=lambda tr, v, x: tr.replace(v, v, sl), pos=pos, si=b.slice(proj.proj_slice(sl)))


def ev_max_open(b, frag, open_iso, total=True):
    """Slice.max_open(fragment, open_isolating) (C18: isolating nodes can be kept closed)."""
    from prosemirror.model import Slice
    toks = proj.proj_fragment(frag)
    k, v = watchdog.call(lambda: Slice.max_open(frag, open_iso), 3.0)
    ev = {"ev": "Helper", "di": b.doc(toks), "helper": "max_open", "openIso": bool(open_iso), "total": bool(total),
          "res": _res((k, v)) if k != "ok" else {"kind": "ok", "none": False, "val": 0}, "os": 0, "oe": 0}
    if k == "ok":
        ev["os"], ev["oe"] = v.open_start, v.open_end
    return b.add(ev)
