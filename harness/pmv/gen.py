"""Random schema-valid documents, generated from the *exported* schema (the text
the author wrote), independently of the library's compiled automata.

Everything is produced as flat token lists; real objects are built from them with
proj.unproj.  Whether a generated document really is valid is decided by the
specification (events whose document is not Valid are skipped, and counted).
"""
from __future__ import annotations

import json
import random

from .schemas import canon

TEXT_ALPHABET = ["a", "b", "c", " ", "é", "\U0001F600", "x", "\n", "Z", "́", "\u00a0", "\u2003"]
ATTR_POOL = {"level": [1, 2, 3], "src": ["img.png", "a&b\"c"], "href": ["foo", "http://x/?a=1&b=2"],
             "order": [1, 3], "alt": [None, "x"], "title": [None, "t<>"], "meta": [None, 1], "id": [1, 2]}
GENERIC_VALUES = [None, 1, "v", [1, {"k": None}]]
# values that are false in Python but are not None (used for the values of attribute steps)
FALSY_VALUES = [0, "", False, [], {}]


class SchemaInfo:
    """Read-only helper over the exported schema JSON."""

    def __init__(self, js):
        self.js = js
        self.nodes = {n["n"]: n for n in js["nodes"]}
        self.order = [n["n"] for n in js["nodes"]]
        self.marks = {m["n"]: m for m in js["marks"]}
        self.mark_order = [m["n"] for m in js["marks"]]
        self.top = js["top"]

    def names(self, ref):
        if ref in self.nodes:
            return [ref]
        return [n for n in self.order if ref in self.nodes[n]["groups"]]

    def is_leaf(self, n):
        return self.nodes[n]["content"]["op"] == "eps"

    def is_inline(self, n):
        return n == "text" or self.nodes[n]["inline"]

    def gather(self, names):
        out = []
        for nm in names:
            if nm in self.marks:
                out.append(nm)
            else:
                out += [m for m in self.mark_order if nm == "_" or nm in self.marks[m]["groups"]]
        return out

    def first(self, e):
        op = e["op"]
        if op == "eps":
            return set()
        if op == "name":
            return set(self.names(e["ref"]))
        if op == "seq":
            out = set()
            for a in e["args"]:
                out |= self.first(a)
                if not self.nullable(a):
                    break
            return out
        if op == "choice":
            return set().union(*[self.first(a) for a in e["args"]])
        return self.first(e["args"][0])

    def nullable(self, e):
        op = e["op"]
        if op in ("eps", "star", "opt"):
            return True
        if op == "name":
            return False
        if op == "seq":
            return all(self.nullable(a) for a in e["args"])
        if op == "choice":
            return any(self.nullable(a) for a in e["args"])
        if op == "plus":
            return self.nullable(e["args"][0])
        return e["min"] == 0 or self.nullable(e["args"][0])

    def inline_content(self, n):
        return any(self.is_inline(a) for a in self.first(self.nodes[n]["content"]))

    def allowed_marks(self, n):
        nd = self.nodes[n]
        if nd["mk"] == "absent":
            return list(self.mark_order) if self.inline_content(n) else []
        return self.gather(nd["mnames"])

    def excluded_by(self, a):
        m = self.marks[a]
        return [a] if m["ek"] == "absent" else self.gather(m["enames"])


class DocGen:
    def __init__(self, js, rng: random.Random, max_depth=5, size=1.0, alphabet=None):
        self.s = SchemaInfo(js)
        self.rng = rng
        self.max_depth = max_depth
        self.size = size
        self.alphabet = alphabet or TEXT_ALPHABET

    # ---- attribute and mark values
    def attrs(self, n):
        out = {}
        for a in self.s.nodes[n]["attrs"]:
            pool = ATTR_POOL.get(a["n"], GENERIC_VALUES)
            if not a["req"] and self.rng.random() < 0.5:
                out[a["n"]] = a["def"]
            else:
                v = self.rng.choice(pool)
                if a["req"] and v is None:
                    v = "r"
                out[a["n"]] = canon(v)
        return out

    def mark(self, mt):
        # a mark's attrs are one opaque canonical string for the specification
        import json
        attrs = {}
        for a in self.s.marks[mt]["attrs"]:
            pool = ATTR_POOL.get(a["n"], GENERIC_VALUES)
            if not a["req"] and self.rng.random() < 0.5:
                attrs[a["n"]] = json.loads(a["def"])
            else:
                v = self.rng.choice(pool)
                if a["req"] and v is None:
                    v = "r"
                attrs[a["n"]] = v
        return {"t": mt, "a": canon(attrs)}

    def markset(self, parent):
        allowed = self.s.allowed_marks(parent)
        if not allowed or self.rng.random() < 0.55:
            return []
        k = self.rng.choice([1, 1, 2, 3])
        chosen = sorted(set(self.rng.sample(allowed, min(k, len(allowed)))), key=self.s.mark_order.index)
        # drop marks excluded by another chosen mark (keep the earlier one)
        out = []
        for m in chosen:
            if any(m in self.s.excluded_by(o) or o in self.s.excluded_by(m) for o in out):
                continue
            out.append(m)
        res = [self.mark(m) for m in out]
        # a mark type that does not exclude itself may occur twice (comment threads): sometimes add a second instance
        for m in list(out):
            if m not in self.s.excluded_by(m) and self.s.marks[m]["attrs"] and self.rng.random() < 0.4:
                extra = self.mark(m)
                if all(extra != r for r in res):
                    k = max(i for i, r in enumerate(res) if r["t"] == m)
                    res.insert(k + 1, extra)
        return res

    # ---- content
    def type_seq(self, e, depth):
        """A random word of the language of expression e (list of type names)."""
        op = e["op"]
        r = self.rng
        deep = depth >= self.max_depth
        if op == "eps":
            return []
        if op == "name":
            names = self.s.names(e["ref"])
            if deep:
                flat = [n for n in names if self.s.is_leaf(n) or n == "text" or self.s.inline_content(n)]
                names = flat or names
            return [r.choice(names)]
        if op == "seq":
            return [t for a in e["args"] for t in self.type_seq(a, depth)]
        if op == "choice":
            return self.type_seq(r.choice(e["args"]), depth)
        inner = e["args"][0]
        if op == "opt":
            n = r.choice([0, 1])
        elif op == "star":
            n = self.count(0, depth)
        elif op == "plus":
            n = self.count(1, depth)
        else:
            hi = e["max"] if e["max"] != -1 else e["min"] + 2
            n = r.randint(e["min"], max(e["min"], hi))
        return [t for _ in range(n) for t in self.type_seq(inner, depth)]

    def count(self, lo, depth):
        r = self.rng.random()
        scale = self.size / (1 + 0.6 * depth)
        n = lo
        while self.rng.random() < 0.55 * scale and n < 5:
            n += 1
        if r < 0.1:
            n = lo
        return n

    def content(self, n, depth, out):
        seq = self.type_seq(self.s.nodes[n]["content"], depth)
        prev_text_marks = None
        for t in seq:
            if t == "text":
                ms = self.markset(n)
                if prev_text_marks is not None and ms == prev_text_marks:
                    # adjacent same-markup text would merge: vary or extend the run
                    pass
                k = self.rng.choice([1, 1, 2, 3, 5])
                from .proj import units
                for _ in range(k):
                    ch = self.rng.choice(self.alphabet)
                    for u in units(ch):
                        out.append({"k": "x", "t": "text", "a": {}, "m": ms, "c": u, "b": False})
                prev_text_marks = ms
                continue
            prev_text_marks = None
            ms = self.markset(n)
            if self.s.is_leaf(t):
                out.append({"k": "l", "t": t, "a": self.attrs(t), "m": ms, "c": 0, "b": False})
            else:
                out.append({"k": "o", "t": t, "a": self.attrs(t), "m": ms, "c": 0, "b": False})
                self.content(t, depth + 1, out)
                out.append({"k": "c", "t": "", "a": {}, "m": [], "c": 0, "b": False})

    def doc(self):
        out = []
        self.content(self.s.top, 0, out)
        return canonize(out)


def canonize(toks):
    for i, t in enumerate(toks):
        if t["k"] == "x":
            t["b"] = i == 0 or toks[i - 1]["k"] != "x" or toks[i - 1]["m"] != t["m"]
    return toks


def norm_tokens(toks):
    """Tokens printed by TLC (ToJson renders the empty record as []) -> harness form."""
    out = []
    for t in toks:
        t = dict(t)
        if t.get("a") == []:
            t["a"] = {}
        out.append(t)
    return out


def depth_array(toks):
    d = [0]
    for t in toks:
        d.append(d[-1] + (1 if t["k"] == "o" else -1 if t["k"] == "c" else 0))
    return d
