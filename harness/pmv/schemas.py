"""Schema catalogue and export.

A schema is described once, as the plain spec dictionary a user would pass to
`Schema(...)`.  `export(spec)` turns that *text* into the JSON the specification
reads (spec/PMBase.tla: Schema) - nothing the library computes from a schema
(automata, mark sets, exclusion lists, default attrs) crosses into the
specification.  `build(name)` creates the real `Schema`.
"""
from __future__ import annotations

import copy
import json

from . import exprparse


def canon(v) -> str:
    """Opaque canonical string of an attribute value (TLC's Json has no null/float)."""
    return json.dumps(v, sort_keys=True, separators=(",", ":"))


def export(spec: dict, name: str = "schema") -> dict:
    nodes = []
    for n, ns in spec["nodes"].items():
        content = ns.get("content", "") or ""
        attrs = [{"n": a, "req": "default" not in (av or {}),
                  "def": canon((av or {}).get("default")) if "default" in (av or {}) else ""}
                 for a, av in (ns.get("attrs") or {}).items()]
        mk = ns.get("marks")
        flags = [f for f in ("isolating", "defining", "definingAsContext", "definingForContent", "code", "atom")
                 if ns.get(f)]
        nodes.append({
            "n": n,
            "content": exprparse.parse(content),
            "src": content,
            "groups": ns["group"].split(" ") if "group" in ns else [],
            "inline": bool(ns.get("inline")),
            "attrs": attrs,
            "mk": "absent" if mk is None else "expr",
            "mnames": [] if not mk else mk.split(" "),
            "flags": flags,
        })
    marks = []
    for n, ms in (spec.get("marks") or {}).items():
        ex = ms.get("excludes")
        mattrs = [{"n": a, "req": "default" not in (av or {}),
                   "def": canon((av or {}).get("default")) if "default" in (av or {}) else ""}
                  for a, av in (ms.get("attrs") or {}).items()]
        marks.append({
            "n": n,
            "attrs": mattrs,
            "ek": "absent" if ex is None else "expr",
            "enames": [] if not ex else ex.split(" "),
            "inclusive": ms.get("inclusive") is not False,
            "groups": ms["group"].split(" ") if "group" in ms else [],
            "req": any("default" not in (av or {}) for av in (ms.get("attrs") or {}).values()),
        })
    return {"name": name, "top": spec.get("topNode") or "doc", "nodes": nodes, "marks": marks}


# --------------------------------------------------------------------------
# catalogue

def _basic_spec():
    from prosemirror.schema.basic import schema as basic
    return {"nodes": dict(basic.spec["nodes"]), "marks": dict(basic.spec["marks"])}


def _test_spec():
    from prosemirror.test_builder import test_schema
    return {"nodes": dict(test_schema.spec["nodes"]), "marks": dict(test_schema.spec["marks"])}


def _variant(base, **over):
    spec = {"nodes": dict(base["nodes"]), "marks": dict(base.get("marks") or {})}
    for k, v in over.items():
        if v is None:
            spec["nodes"].pop(k, None)
        else:
            spec["nodes"][k] = v
    return spec


def _strip(spec):
    """Drop callables (toDOM/parseDOM/...) so the spec is JSON-able."""
    out = {"nodes": {}, "marks": {}}
    for n, ns in spec["nodes"].items():
        out["nodes"][n] = {k: v for k, v in ns.items() if k not in ("toDOM", "parseDOM", "toDebugString", "leafText")}
    for n, ms in (spec.get("marks") or {}).items():
        out["marks"][n] = {k: v for k, v in ms.items() if k not in ("toDOM", "parseDOM")}
    if "topNode" in spec:
        out["topNode"] = spec["topNode"]
    return out


SMALL = {
    # S1: general small schema (Appendix B)
    "s1": {
        "nodes": {
            "doc": {"content": "block+"},
            "p": {"content": "inline*", "group": "block"},
            "h": {"content": "inline*", "group": "block", "defining": True, "attrs": {"level": {"default": 1}}},
            "bq": {"content": "block+", "group": "block", "defining": True},
            "hr": {"group": "block"},
            "cb": {"content": "text*", "marks": "", "group": "block", "code": True, "defining": True},
            "text": {"group": "inline"},
            "img": {"inline": True, "group": "inline", "attrs": {"src": {}, "alt": {"default": None}}},
            "br": {"inline": True, "group": "inline"},
        },
        "marks": {
            "link": {"attrs": {"href": {}}, "inclusive": False},
            "em": {},
            "strong": {},
            "code": {},
        },
    },
    # tiny variant for exhaustive enumeration (few types, one mark)
    "s1t": {
        "nodes": {
            "doc": {"content": "block+"},
            "p": {"content": "inline*", "group": "block"},
            "bq": {"content": "block+", "group": "block", "defining": True},
            "hr": {"group": "block"},
            "text": {"group": "inline"},
            "br": {"inline": True, "group": "inline"},
        },
        "marks": {"em": {}, "link": {"attrs": {"href": {}}, "inclusive": False}},
    },
    # S2: lists and strictness
    "s2": {
        "nodes": {
            "doc": {"content": "block+"},
            "p": {"content": "inline*", "group": "block"},
            "h": {"content": "inline*", "group": "block", "defining": True, "attrs": {"level": {"default": 1}}},
            "bq": {"content": "block+", "group": "block", "defining": True},
            "ul": {"content": "li+", "group": "block"},
            "ol": {"content": "li+", "group": "block", "attrs": {"order": {"default": 1}}},
            "li": {"content": "p block*", "defining": True},
            "hr": {"group": "block"},
            "cb": {"content": "text*", "marks": "", "group": "block", "code": True, "defining": True},
            "text": {"group": "inline"},
            "br": {"inline": True, "group": "inline"},
        },
        "marks": {"em": {}, "link": {"attrs": {"href": {}}, "inclusive": False}},
    },
    # S2': upstream's strict heading/body shape over S2
    "s2s": {
        "nodes": {
            "doc": {"content": "h body"},
            "body": {"content": "block+"},
            "p": {"content": "inline*", "group": "block"},
            "h": {"content": "inline*", "group": "block", "defining": True, "attrs": {"level": {"default": 1}}},
            "bq": {"content": "block+", "group": "block", "defining": True},
            "ul": {"content": "li+", "group": "block"},
            "li": {"content": "p block*", "defining": True},
            "text": {"group": "inline"},
        },
        "marks": {"em": {}},
    },
    # several coexisting non-inclusive marks (marks at a position, C09)
    "s1m": {
        "nodes": {
            "doc": {"content": "block+"},
            "p": {"content": "inline*", "group": "block"},
            "text": {"group": "inline"},
            "br": {"inline": True, "group": "inline"},
        },
        "marks": {"n1": {"inclusive": False}, "em": {}, "n2": {"inclusive": False}, "n3": {"inclusive": False, "excludes": ""}},
    },
    # S3: isolating containers and table-like structure
    "s3": {
        "nodes": {
            "doc": {"content": "block+"},
            "p": {"content": "inline*", "group": "block"},
            "bq": {"content": "block+", "group": "block", "defining": True},
            "iso": {"content": "block+", "group": "block", "isolating": True},
            "table": {"content": "row+", "group": "block"},
            "row": {"content": "cell+"},
            "cell": {"content": "block+", "isolating": True},
            "text": {"group": "inline"},
        },
        "marks": {"em": {}},
    },
    # S4 family: mark configurations
    # ND: content expressions that are not deterministic on a node type (the same type can match at two places
    # of the expression with other types in between): the compiled matcher must merge the alternatives
    "nd": {
        "nodes": {
            "doc": {"content": "h? block+"},
            "p": {"content": "inline*", "group": "block"},
            "h": {"content": "inline*", "group": "block"},
            "sec": {"content": "block* p", "group": "block"},
            "lst": {"content": "(p | h)* p h?", "group": "block"},
            "text": {"group": "inline"},
            "br": {"inline": True, "group": "inline"},
        },
        "marks": {"em": {}},
    },
    # AT: atom nodes that have content (a footnote; a boxed group of paragraphs): one unit for editing, ordinary nodes
    # for positions and sizes
    "at": {
        "nodes": {
            "doc": {"content": "block+"},
            "p": {"content": "inline*", "group": "block"},
            "box": {"content": "p+", "group": "block", "atom": True},
            "fn": {"content": "text*", "inline": True, "group": "inline", "atom": True},
            "text": {"group": "inline"},
            "br": {"inline": True, "group": "inline"},
        },
        "marks": {"em": {}, "link": {"attrs": {"href": {}}, "inclusive": False}},
    },
    # BM: marks on block nodes (track-change / comment style): some containers allow them, others do not
    "bm": {
        "nodes": {
            "doc": {"content": "block+", "marks": "ins note"},
            "p": {"content": "inline*", "group": "block"},
            "bq": {"content": "block+", "group": "block"},
            "sec": {"content": "block+", "group": "block", "marks": "_"},
            "ul": {"content": "li+", "group": "block", "marks": "ins"},
            "li": {"content": "p block*"},
            "text": {"group": "inline"},
            "br": {"inline": True, "group": "inline"},
        },
        "marks": {"em": {}, "ins": {"attrs": {"user": {"default": "a"}}}, "note": {"attrs": {"id": {}}, "excludes": ""}},
    },
    # GRID: containers whose content is an exact sequence (a row of two cells, term / description pairs): joining two of
    # them by a deletion across their boundary makes the merged container invalid although every child is fine
    "grid": {
        "nodes": {
            "doc": {"content": "block+"},
            "p": {"content": "inline*", "group": "block"},
            "grid": {"content": "row+", "group": "block"},
            "row": {"content": "cell cell"},
            "cell": {"content": "p+"},
            "dl": {"content": "(dt dd)+", "group": "block"},
            "dt": {"content": "inline*"},
            "dd": {"content": "p{1,2}"},
            "text": {"group": "inline"},
            "br": {"inline": True, "group": "inline"},
        },
        "marks": {"em": {}},
    },
    "s4": {
        "nodes": {
            "doc": {"content": "(para | plain)+"},
            "para": {"content": "text*"},
            "plain": {"content": "text*", "marks": "a c"},
            "text": {},
        },
        "marks": {
            "a": {},
            "b": {"excludes": "a"},
            "c": {"excludes": "", "attrs": {"id": {}}},
            "d": {"excludes": "_"},
        },
    },
}


def spec_of(name: str) -> dict:
    if name in SMALL:
        return copy.deepcopy(SMALL[name])
    if name == "basic":
        return _basic_spec()
    if name == "test":
        return _test_spec()
    base = _test_spec()
    if name == "strict":       # upstream's heading/body schema
        return _variant(base, doc={**base["nodes"]["doc"], "content": "heading body"}, body={"content": "block+"})
    if name == "title":        # upstream's title? block* schema
        return _variant(base, doc={"content": "title? block*"}, title={"content": "text*"})
    if name == "iso":          # upstream's isolating container
        return _variant(base, iso={"group": "block", "content": "block+", "isolating": True})
    if name == "table":        # table-like with isolating cells
        return _variant(base,
                        table={"content": "table_row+", "group": "block", "isolating": True},
                        table_row={"content": "table_cell+"},
                        table_cell={"content": "block+", "isolating": True})
    if name == "reord":        # the same node types declared in another order (text last, inline leaves before it): the order
        # decides the order of a match state's edges and of default fillers, nothing a user would notice
        nodes = base["nodes"]
        order = [n for n in nodes if n != "text" and not nodes[n].get("inline")] + [n for n in nodes if nodes[n].get("inline")] + ["text"]
        assert sorted(order) == sorted(nodes)
        return {**base, "nodes": {n: nodes[n] for n in order}}
    raise KeyError(name)


_cache: dict = {}


def build(name: str):
    """(real Schema, exported JSON) for a catalogue name."""
    if name not in _cache:
        from prosemirror.model import Schema
        spec = spec_of(name)
        _cache[name] = (Schema(spec), export(_strip(spec), name))
    return _cache[name]


BUNDLED_PLUS = ["test", "basic", "strict", "title", "iso", "table"]
