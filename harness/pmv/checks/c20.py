"""C20 - document diffing terminates and reports the true first and last difference.

M: spec/mc/MC_Diff.tla - laws of DiffStart/DiffEnd over all ordered pairs of small documents.
G+T: all ordered pairs of TLC-generated documents, built as independent copies *and* with maximal
     sharing (the second derived from the first through replace, so untouched children are the same
     objects; also the same object twice); T: (before, after) of every step of random Transform
     sessions, non-BMP text.  Every call runs under a wall-clock watchdog; judged by Trace_Doc!VDiff.
"""
from __future__ import annotations

import json
import random

from .. import core, ops, proj, schemas, steps, tlc, trace, universe, watchdog
from ..core import Stats, Violation
from .c02 import all_cuts, short


TIMEOUTS = {"n": 0}
MAX_TIMEOUTS = 6      # after that many hangs further probing only costs time: stop generating events


def diff_event(b, fa, fb, tag):
    """fa, fb: real Fragments."""
    if TIMEOUTS["n"] >= MAX_TIMEOUTS:
        return None
    k, v = watchdog.call(lambda: fa.find_diff_start(fb), 1.0)
    if k == "timeout":
        TIMEOUTS["n"] += 1
    if k == "ok":
        start = {"kind": "ok", "pos": -1 if v is None else v}
    elif k == "timeout":
        start = {"kind": "timeout", "pos": -1}
    else:
        start = {"kind": "raise", "cls": type(v).__name__, "pos": -1}
    k, v = watchdog.call(lambda: fa.find_diff_end(fb), 1.0)
    if k == "timeout":
        TIMEOUTS["n"] += 1
    if k == "ok":
        end = {"kind": "ok", "a": -1 if v is None else v["a"], "b": -1 if v is None else v["b"]}
    elif k == "timeout":
        end = {"kind": "timeout", "a": -1, "b": -1}
    else:
        end = {"kind": "raise", "cls": type(v).__name__, "a": -1, "b": -1}
    return b.add({"ev": "Diff", "di": b.doc(proj.proj_fragment(fa)), "di2": b.doc(proj.proj_fragment(fb)), "tag": tag,
                  "start": start, "end": end})


def run(tier: str, seed: int, t0: float) -> int:
    stats = Stats()
    out: list[Violation] = []
    thorough = tier == "thorough"
    rng = random.Random(seed)
    # nodes and marks that differ only in an attribute value must count as different
    LV = {"t": "link", "a": "{\"href\":\"v\"}"}
    gb = universe.bounds(4 if not thorough else 5, chars=(97, 98), marksets=((), (universe.EM,), (universe.LINK,), (LV,)),
                         attrs={"h": [{"level": "1"}, {"level": "2"}]})
    sch, js, docs = universe.tlc_docs("s1t", gb, stats)
    # ---- M
    mdocs = docs if len(docs) <= 150 else rng.sample(docs, 150)
    path = tlc.write_input({"schema": js, "docs": mdocs}, "mcdiff")
    r = tlc.run_tlc("MC_Diff", "MC_Diff.cfg", env={"PMV_INPUT": path}, timeout=3000)
    if not r.ok:
        raise core.MachineryError("MC_Diff: " + "; ".join(r.errors[:3]) + r.stdout[-1500:])
    stats.add_tlc(r, "M MC_Diff")
    jobs = []
    # ---- G+T: all ordered pairs, independent and shared
    real = [proj.unproj(sch, d) for d in docs]
    copies = [proj.unproj(sch, d) for d in docs]
    b = trace.Batch(js)
    pairs = [(i, j) for i in range(len(docs)) for j in range(len(docs))]
    budget = 6000 if not thorough else 60000
    if len(pairs) > budget:
        pairs = rng.sample(pairs, budget)
    else:
        stats.exhaustive = True
    for i, j in pairs:
        diff_event(b, real[i].content, copies[j].content, "independent")
    cuts = all_cuts(sch, real)
    n_shared = 0
    for rd in real:
        diff_event(b, rd.content, rd.content, "same-object")
        n = rd.content.size
        for f in range(n + 1):
            for t in range(f, n + 1):
                for sl, _p in rng.sample(cuts, min(len(cuts), 2)):
                    try:
                        d2 = rd.replace(f, t, sl)
                    except Exception:  # noqa: BLE001
                        continue
                    diff_event(b, rd.content, d2.content, "shared")
                    diff_event(b, d2.content, rd.content, "shared")
                    n_shared += 2
    stats.bounds.update({"docs": len(docs), "pairs_independent": len(pairs), "pairs_shared": n_shared})
    jobs.append((b, "G+T diff[s1t]"))
    # ---- T: real edit histories on bundled schemas
    from prosemirror.transform import Transform
    for name in schemas.BUNDLED_PLUS + ["s4", "bm", "at"]:  # (s4, bm: mark types that may occur twice in one set; at: atoms with content)
        sch2, js2, prs = universe.random_docs(name, 15 if not thorough else 150, rng)
        slices = []
        for toks, rd in prs:
            n = rd.content.size
            for _ in range(2):
                f = rng.randint(0, n)
                t = rng.randint(f, n)
                try:
                    slices.append(rd.slice(f, t))
                except Exception:  # noqa: BLE001
                    pass
        sg = steps.StepGen(sch2, js2, rng, slices)
        og = ops.OpGen(sch2, js2, rng, slices, sg)
        b2 = trace.Batch(js2)
        for toks, rd in prs:
            tr = Transform(rd)
            for _ in range(4):
                name_, args, thunk = og.pick(tr)
                k, _v = watchdog.call(lambda: ops.run_op(thunk), 5.0)
            allv = [*tr.docs, tr.doc]
            for k in range(len(allv) - 1):
                diff_event(b2, allv[k].content, allv[k + 1].content, "edit")
                diff_event(b2, allv[k + 1].content, allv[k].content, "edit")
            if len(allv) > 2:
                diff_event(b2, allv[0].content, allv[-1].content, "edit")
            # typing / deleting inside text, also next to non-BMP characters
            from prosemirror.model import Fragment, Slice
            texts = []
            tr.doc.descendants(lambda node, pos, parent, index: texts.append((pos, node)) if node.is_text else None)
            for pos, node in texts[:6]:
                us = proj.units(node.text)
                for _ in range(3):
                    off = rng.randint(0, len(us))
                    if 0 < off < len(us) and 0xDC00 <= us[off] < 0xE000:
                        off += 1          # not between the halves of a surrogate pair (known finding of C02)
                    ins = rng.choice(["x", "\U0001F600", "ab", "\U0001F601y"])
                    try:
                        d2 = tr.doc.replace(pos + off, pos + off, Slice(Fragment.from_(sch2.text(ins, node.marks)), 0, 0))
                    except Exception:  # noqa: BLE001
                        continue
                    diff_event(b2, tr.doc.content, d2.content, "text-edit")
                    diff_event(b2, d2.content, tr.doc.content, "text-edit")
                    try:
                        cp2 = proj.unproj(sch2, proj.proj(d2), dict(d2.attrs) if d2.attrs else None)
                        diff_event(b2, tr.doc.content, cp2.content, "text-edit")
                    except Exception:  # noqa: BLE001
                        pass
            # mark-set variants: the same document with one mark of a text node swapped for a mark of the same type
            # with another attribute value (sets with several marks of one type included)
            import json as _json
            base_toks = proj.proj(tr.doc)
            cand = [i for i, tk in enumerate(base_toks) if tk["k"] in ("x", "l") and any(_json.loads(m["a"]) for m in tk["m"])]
            def dup_first(tk_):
                """index of a mark that is followed by another mark of the same type (None if there is none)"""
                for k_, m_ in enumerate(tk_["m"]):
                    if _json.loads(m_["a"]) and any(m2["t"] == m_["t"] for m2 in tk_["m"][k_ + 1:]):
                        return k_
                return None
            dups = [i for i in cand if dup_first(base_toks[i]) is not None]
            chosen_i = (dups if len(dups) <= 4 else rng.sample(dups, 4)) + (cand if len(cand) <= 3 else rng.sample(cand, 3))
            for i in chosen_i:
                tk = base_toks[i]
                j = dup_first(tk) if (i in dups and rng.random() < 0.8) else rng.choice([k for k, m in enumerate(tk["m"]) if _json.loads(m["a"])])
                attrs = _json.loads(tk["m"][j]["a"])
                key = rng.choice(sorted(attrs))
                attrs[key] = (attrs[key] + "9") if isinstance(attrs[key], str) else 99
                var = [dict(t) for t in base_toks]
                # the whole run of the text node gets the variant mark set
                lo = i
                while lo > 0 and base_toks[lo]["k"] == "x" and not base_toks[lo]["b"]:
                    lo -= 1
                hi = i
                while hi + 1 < len(base_toks) and base_toks[hi + 1]["k"] == "x" and not base_toks[hi + 1]["b"]:
                    hi += 1
                newm = [dict(m) for m in tk["m"]]
                newm[j] = {"t": newm[j]["t"], "a": _json.dumps(attrs, sort_keys=True, separators=(",", ":"))}
                for q in range(lo if tk["k"] == "x" else i, (hi if tk["k"] == "x" else i) + 1):
                    var[q]["m"] = newm
                try:
                    vd = proj.unproj(sch2, var, dict(tr.doc.attrs) if tr.doc.attrs else None)
                    if var != base_toks:        # (compared as tokens: the library's own eq is part of what is tested)
                        diff_event(b2, tr.doc.content, vd.content, "mark-variant")
                        diff_event(b2, vd.content, tr.doc.content, "mark-variant")
                except Exception:  # noqa: BLE001
                    pass
            # an independent copy of the final document
            try:
                cp = proj.unproj(sch2, proj.proj(tr.doc), dict(tr.doc.attrs) if tr.doc.attrs else None)
                diff_event(b2, tr.doc.content, cp.content, "independent")
            except Exception:  # noqa: BLE001
                pass
        jobs.append((b2, f"T diff[{name}]"))
    vs = trace.validate_many([("Trace_Doc", bb, what) for bb, what in jobs], stats)
    for (bb, what), verdicts in zip(jobs, vs):
        for e in bb.events:
            v = verdicts[e["id"]]
            stats.traces += 1
            stats.count(f"{e['tag']}:{v}")
            if v.startswith("skip"):
                stats.skipped += 1
            a, c = bb.docs[e["di"] - 1], bb.docs[e["di2"] - 1]
            stats.case({"a": short(a), "b": short(c), "tag": e["tag"], "start": e["start"], "end": e["end"]},
                       nontrivial=not v.startswith("skip") and a != c)
            if v.startswith("bad:"):
                sig = {"tag": e["tag"]}
                for side in ("start", "end"):
                    if e[side]["kind"] == "raise":
                        sig["exc"] = e[side]["cls"]
                astral = any(t["k"] == "x" and 0xD800 <= t["c"] < 0xE000 for t in a + c)
                if astral:
                    sig["cond"] = "non-BMP text"
                out.append(Violation(v[4:], "Fragment.find_diff_start" if "Start" in v else "Fragment.find_diff_end",
                                     f"{what}: a={short(a)} b={short(c)} tag={e['tag']} start={e['start']} end={e['end']}",
                                     {"schema": bb.schema_js["name"], "a": a, "b": c, "event": e}, sig))
    for key, least in (("independent:ok", 1000), ("shared:ok", 500), ("same-object:ok", 10), ("edit:ok", 100), ("text-edit:ok", 30)):
        if TIMEOUTS["n"] >= MAX_TIMEOUTS:
            stats.notes.append("probing stopped after %d watchdog timeouts" % TIMEOUTS["n"])
            break
        if stats.counts.get(key, 0) < least:
            core.vacuity(out, f"vacuity gate: {key}={stats.counts.get(key, 0)} < {least}")
    return core.finish("C20", tier, seed, stats, out, t0,
                       rule="ordered pairs of fragments: all pairs of TLC-generated documents as independent copies; (document, document after a replace) "
                            "pairs sharing sub-tree objects; the same object twice; (before, after) of every step of random Transform sessions on bundled "
                            "schemas incl. non-BMP text; non-trivial = the two fragments differ",
                       assumptions=["termination = the call returns within a 2 s watchdog", "projection", "TLC/SANY, Json module"])


def replay(path: str) -> int:
    with open(path) as f:
        body = json.load(f)
    print(json.dumps(body["replay"])[:3000])
    return 0
