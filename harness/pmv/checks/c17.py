"""C17 - concurrent edits to separate parts of a document commute after rebasing.

M: spec/mc/MC_Pairs.tla (CommuteLaw) - the specification's rebasing rules over every pair of separated steps
   of every kind on every small document.
G+T: every TLC-generated document x pairs of enumerated steps of all kinds; T: random bundled documents x
   pairs of first steps of two high-level operations made against the same base document.
Each step is rebased over the other's map with the library's `map`, both orders are applied with the
library's `apply`; judged by Trace_Doc!VCommute (separation is decided by the specification).
"""
from __future__ import annotations

import json
import random

from .. import core, ops, proj, schemas, steps, tlc, trace, universe
from ..core import Stats, Violation
from .c02 import all_cuts, short
from .c01 import small_scope_steps


from .c02 import inside_surrogate  # noqa: E402


def commute_event(b, doc, di, a, bb, tag):
    ra, da = steps.apply_outcome(a, doc)
    rb, db = steps.apply_outcome(bb, doc)
    ev = {"ev": "Commute", "di": di, "a": steps.pstep(a), "b": steps.pstep(bb), "ra": ra, "rb": rb, "tag": tag,
          "am": {"type": "none"}, "bm": {"type": "none"}, "ab": {"kind": "none"}, "ba": {"kind": "none"}, "about": [], "baout": []}
    if da is not None and db is not None:
        try:
            am = a.map(bb.get_map())
            bm = bb.map(a.get_map())
        except Exception as ex:  # noqa: BLE001
            ev["ab"] = {"kind": "raise", "cls": type(ex).__name__}
            return b.add(ev)
        if am is not None:
            ev["am"] = steps.pstep(am)
        if bm is not None:
            ev["bm"] = steps.pstep(bm)
        if am is not None and bm is not None:
            r1, d1 = steps.apply_outcome(bm, da)
            r2, d2 = steps.apply_outcome(am, db)
            ev["ab"], ev["ba"] = r1, r2
            ev["about"] = proj.proj(d1) if d1 is not None else []
            ev["baout"] = proj.proj(d2) if d2 is not None else []
    return b.add(ev)


def touched(st):
    if "from" in st:
        return st["from"], st["to"]
    if "pos" in st:
        return st["pos"], st["pos"] + 1
    return 0, -1


def separated(a, c):
    ta, tb = touched(a), touched(c)
    return ta[0] <= ta[1] and tb[0] <= tb[1] and (ta[1] + 1 <= tb[0] or tb[1] + 1 <= ta[0])


def run(tier: str, seed: int, t0: float) -> int:
    stats = Stats()
    out: list[Violation] = []
    thorough = tier == "thorough"
    rng = random.Random(seed)
    sch, js, docs = universe.tlc_docs("s1t", universe.bounds(3 if not thorough else 4), stats)
    path = tlc.write_input({"schema": js, "starts": docs, "marks": [universe.EM]}, "mcpairs")
    r = tlc.run_tlc("MC_Pairs", "MC_Pairs_Commute.cfg", env={"PMV_INPUT": path}, timeout=3000)
    if not r.ok:
        raise core.MachineryError("MC_Pairs: " + "; ".join(r.errors[:3]) + r.stdout[-1500:])
    stats.add_tlc(r, "M MC_Pairs CommuteLaw")
    jobs = []
    # ---- G+T: small scope (documents need room for two separated edits)
    sch, js, docs = universe.tlc_docs("s1t", universe.bounds(6 if not thorough else 7), stats)
    docs = [d for d in docs if len(d) >= 4]
    if len(docs) > (150 if not thorough else 1500):
        docs = rng.sample(docs, 150 if not thorough else 1500)
    real = [proj.unproj(sch, d) for d in docs]
    cuts = [c for c in all_cuts(sch, real[:60]) if len(c[1]["toks"]) <= 3]
    b = trace.Batch(js)
    for d, rd in zip(docs, real):
        di = b.doc(d)
        sts = small_scope_steps(sch, js, rd, cuts, rng, 400)
        ok = [(s, steps.pstep(s)) for s in sts if steps.apply_outcome(s, rd)[1] is not None]
        pairs = [(x, y) for x in ok for y in ok if separated(x[1], y[1])]
        for (x, _), (y, _) in rng.sample(pairs, min(len(pairs), 25 if not thorough else 200)):
            commute_event(b, rd, di, x, y, "enum")
    jobs.append((b, "G+T commute[s1t]"))
    # ---- T: first steps of pairs of high-level operations against the same base
    from prosemirror.transform import Transform
    for name in schemas.BUNDLED_PLUS:
        sch2, js2, prs = universe.random_docs(name, 25 if not thorough else 250, rng, size=1.6)
        slices = []
        for toks, rd in prs:
            n = rd.content.size
            for _ in range(2):
                f = rng.randint(0, n)
                t = rng.randint(f, min(n, f + 6))
                try:
                    slices.append(rd.slice(f, t))
                except Exception:  # noqa: BLE001
                    pass
        sg = steps.StepGen(sch2, js2, rng, slices)
        og = ops.OpGen(sch2, js2, rng, slices, sg)
        b2 = trace.Batch(js2)
        for toks, rd in prs:
            if rd.content.size < 6:
                continue
            di = b2.doc(toks)
            firsts = []
            for _ in range(14):
                tr = Transform(rd)
                nm, args, thunk = og.pick(tr)
                ops.run_op(thunk)
                if tr.steps:
                    firsts.append((nm, tr.steps[0], steps.pstep(tr.steps[0])))
            pairs = [(x, y) for x in firsts for y in firsts if x is not y and separated(x[2], y[2])]
            for x, y in pairs[:12]:
                commute_event(b2, rd, di, x[1], y[1], f"op:{x[0]}+{y[0]}")
            # two people editing the same textblock: one inserts (a node, or a list of nodes as insert / replace_with
            # accept it) or deletes early in it, the other types, deletes or marks further on
            blocks = []
            rd.descendants(lambda node, pos, parent, index: blocks.append((pos + 1, node)) if node.is_textblock and node.content.size >= 3 else None)
            for start, tb in (blocks if len(blocks) <= 3 else rng.sample(blocks, 3)):
                size = tb.content.size
                for _ in range(4):
                    p_ = start + rng.randint(0, size - 2)
                    q_ = rng.randint(p_ + 1, start + size)
                    if inside_surrogate(toks, p_) or inside_surrogate(toks, q_) or inside_surrogate(toks, min(q_ + 1, start + size)):
                        continue
                    tra, trb = Transform(rd), Transform(rd)
                    ka = rng.choice(["nodes", "nodes", "text", "replace_with"])
                    kb = rng.choice(["text", "delete", "mark", "nodes"])
                    try:
                        if ka == "nodes":
                            tra.insert(p_, og.some_nodes())
                        elif ka == "text":
                            tra.insert(p_, sch2.text("w"))
                        else:
                            tra.replace_with(max(start, p_ - 1), p_, og.some_nodes())
                        if kb == "text":
                            trb.insert(q_, sch2.text("zz"))
                        elif kb == "nodes":
                            trb.insert(q_, og.some_nodes())
                        elif kb == "delete":
                            trb.delete(q_, min(q_ + 1, start + size))
                        else:
                            m = sg.mark()
                            if m is None:
                                continue
                            trb.add_mark(q_, start + size, m)
                    except Exception:  # noqa: BLE001 - e.g. a code block refusing the marked text: not a pair
                        continue
                    if tra.steps and trb.steps:
                        commute_event(b2, rd, di, tra.steps[0], trb.steps[0], f"sameblock:{ka}+{kb}")
        jobs.append((b2, f"T commute[{name}]"))
    vs = trace.validate_many([("Trace_Doc", bb, what) for bb, what in jobs], stats)
    for (bb, what), verdicts in zip(jobs, vs):
        for e in bb.events:
            v = verdicts[e["id"]]
            stats.traces += 1
            stats.count("verdict:" + v)
            kinds = e["a"]["type"] + "+" + e["b"]["type"]
            if v == "ok":
                stats.count("pair:" + kinds)
            if v.startswith("skip"):
                stats.skipped += 1
            elif v.startswith("drift"):
                stats.drift += 1
            def brief(st):
                x = {k2: v2 for k2, v2 in st.items() if k2 != "slice"}
                if "slice" in st:
                    x["slice"] = f"{short(st['slice']['toks'])}({st['slice']['os']},{st['slice']['oe']})"
                return x
            case = {"doc": short(bb.docs[e["di"] - 1]), "a": brief(e["a"]), "b": brief(e["b"]), "tag": e["tag"]}
            stats.case(case, nontrivial=not v.startswith("skip"))
            if v.startswith("bad:"):
                case.update({"am": brief(e["am"]), "bm": brief(e["bm"]), "ab": e["ab"], "ba": e["ba"]})
                out.append(Violation(v[4:], "Step.map", f"{what}: {json.dumps(case)[:700]}",
                                     {"schema": bb.schema_js["name"], "doc": bb.docs[e["di"] - 1], "event": e}, {"pair": kinds}))
    kinds_seen = len([k for k in stats.counts if k.startswith("pair:")])
    stats.counts["distinct_kind_pairs"] = kinds_seen
    for key, least in (("verdict:ok", 800), ("distinct_kind_pairs", 15)):
        if stats.counts.get(key, 0) < least:
            core.vacuity(out, f"vacuity gate: {key}={stats.counts.get(key, 0)} < {least}")
    return core.finish("C17", tier, seed, stats, out, t0,
                       rule="(document, step A, step B) with both applying and touched ranges separated by at least one untouched token; steps enumerated over "
                            "TLC-generated documents (all eight kinds) and first steps of pairs of random high-level operations on bundled documents; "
                            "non-trivial = separated pair (decided by the specification)",
                       assumptions=["Touched(step) = [from, to] or [pos, pos+1]; doc-attribute steps touch nothing", "projection", "TLC/SANY, Json module"])


def replay(path: str) -> int:
    with open(path) as f:
        body = json.load(f)
    print(json.dumps(body["replay"])[:3000])
    return 0
