"""C18 - edits made inside an isolating node never reach outside it.

G+T: TLC-generated shape-bounded documents of the isolating / table-like small schema (S3) x every range
     lying inside an isolating node - including the range covering its entire content - x slices x
     the seven replace-family operations; lift_target for every block range and can_split at every
     position x depth inside isolating nodes;
T: random documents of the isolating and table-like variants of the bundled schemas (cells at depth 3-4).
Judged by spec/trace/Trace_Ops.tla (VC18): every token up to and including the isolating node's open
token and from its close token on is unchanged, and the close still matches the open.
"""
from __future__ import annotations

import json
import random

from .. import core, gen, opdrive, proj, schemas, tlc, trace, universe
from ..core import Stats, Violation
from . import c11


def iso_spans(sch, toks):
    """(open index, close index) of isolating nodes (1-based token indices)."""
    stack, out = [], []
    for i, t in enumerate(toks, 1):
        if t["k"] == "o":
            stack.append(i)
        elif t["k"] == "c":
            o = stack.pop()
            if sch.nodes[toks[o - 1]["t"]].spec.get("isolating"):
                out.append((o, i))
    return out


def doc_events(b, sch, rd, toks, rng, slices, nodes, n_ranges):
    spans = iso_spans(sch, toks)
    if not spans:
        return 0
    di = b.doc(toks)
    n_ev = 0

    def inside(f, t):
        return any(o <= f and t <= c - 1 for o, c in spans)
    # always include the ranges covering the whole content of an isolating node
    full = [(o, c - 1) for o, c in spans]
    n = rd.content.size
    ranges = [(f, t) for f in range(n + 1) for t in range(f, n + 1) if inside(f, t)]
    if len(ranges) > n_ranges:
        ranges = rng.sample(ranges, n_ranges)
    for f, t in set(ranges + full):
        if c11.inside_surrogate(toks, f) or c11.inside_surrogate(toks, t):
            continue
        for op in c11.OPS:
            if op in ("delete", "delete_range"):
                opdrive.ev_replace_family(b, rd, di, op, f, t, None, True)
            elif op in ("replace", "replace_range"):
                for sl in rng.sample(slices, min(len(slices), 2)):
                    opdrive.ev_replace_family(b, rd, di, op, f, t, sl, True)
            elif nodes:
                opdrive.ev_replace_family(b, rd, di, op, f, f if op == "insert" else t, rng.choice(nodes), True)
            n_ev += 1
        opdrive.ev_lift_target(b, rd, di, f, t, True)
    # Slice.max_open on the document's own content and on the content of every isolating node
    for oi in (True, False):
        opdrive.ev_max_open(b, rd.content, oi)
    for o, c in spans:
        try:
            node = rd.node_at(o - 1)
            if node is not None:
                from prosemirror.model import Fragment
                opdrive.ev_max_open(b, Fragment.from_(node), False)
                opdrive.ev_max_open(b, node.content, False)
        except Exception:  # noqa: BLE001
            pass
    for o, c in spans:
        for p in range(o, c):
            for depth in (1, 2, 3):
                opdrive.ev_can_split(b, rd, di, p, depth, True)
    return n_ev


def pin_hash(schema_name, e, doc, sl):
    import hashlib
    key = [schema_name, e.get("op") or e.get("helper"), doc, e.get("from"), e.get("to"), e.get("pos"), sl]
    return hashlib.sha1(json.dumps(key, sort_keys=True).encode()).hexdigest()[:12]


def pinned_stage(stats, out):
    """A stage that is the same on every run (own fixed random stream, canonical order of the TLC-generated
    documents): the inputs on which the library is known to place content outside the isolating node are
    listed one by one in known_findings.json (`inputs`), so any *other* input of this stage that leaks is a
    violation.  (The seeded stages below can only use the broad signature of that finding.)"""
    prng = random.Random(20261001)
    gb = universe.bounds(9, max_depth=5, max_run=1, chars=(97,), marksets=((),), max_kids=2,
                         attrs={"h": [{"level": "1"}], "ol": [{"order": "1"}]})
    sch, js, docs = universe.tlc_docs("s3", gb, stats)
    docs = sorted((d for d in docs if iso_spans(sch, d)), key=lambda d: json.dumps(d, sort_keys=True))
    if len(docs) > 160:
        docs = prng.sample(docs, 160)
    real = [proj.unproj(sch, d) for d in docs]
    slices = c11.slice_pool(real, prng, 2)
    nodes = c11.payload_nodes(sch, prng)
    b = trace.Batch(js)
    for d, rd in zip(docs, real):
        doc_events(b, sch, rd, d, prng, slices, nodes, 8)
    mine: list[Violation] = []
    c11.collect([(b, "P pinned[s3]")], "C18", stats, mine)
    for v in mine:
        v.sig["stage"] = "pinned"
        v.sig["pinned"] = pin_hash("s3", v.replay["event"], v.replay["doc"], v.replay["slice"])
    stats.bounds["pinned_events"] = len(b.events)
    out.extend(mine)
    return mine


def run(tier: str, seed: int, t0: float) -> int:
    stats = Stats()
    out: list[Violation] = []
    thorough = tier == "thorough"
    rng = random.Random(seed)
    jobs = []
    pinned_stage(stats, out)
    sch, js, docs = c11.shape_universe("s3", stats, rng, 200 if not thorough else 3000, 10)
    docs = [d for d in docs if iso_spans(sch, d)]
    real = [proj.unproj(sch, d) for d in docs]
    slices = c11.slice_pool(real, rng, 2)
    nodes = c11.payload_nodes(sch, rng)
    b = trace.Batch(js)
    for d, rd in zip(docs, real):
        doc_events(b, sch, rd, d, rng, slices, nodes, 10 if not thorough else 50)
    stats.bounds["docs_with_isolating"] = len(docs)
    jobs.append((b, "G+T isolating[s3]"))
    for name in ("iso", "table"):
        sch2, js2, prs = universe.random_docs(name, 60 if not thorough else 600, rng, size=1.5)
        prs = [(t, rd) for t, rd in prs if iso_spans(sch2, t)]
        slices2 = c11.slice_pool([rd for _, rd in prs], rng, 3)
        nodes2 = c11.payload_nodes(sch2, rng)
        b2 = trace.Batch(js2)
        for toks, rd in prs:
            doc_events(b2, sch2, rd, toks, rng, slices2, nodes2, 10)
        jobs.append((b2, f"T isolating[{name}]"))
    c11.collect(jobs, "C18", stats, out)
    ok_ops = sum(v for k, v in stats.counts.items() if k.endswith(":ok") and k.split(":")[0] in c11.OPS)
    stats.counts["replace_family_inside_isolating:ok"] = ok_ops
    for key, least in (("replace_family_inside_isolating:ok", 1500), ("delete_range:ok", 100), ("replace_range:ok", 100), ("lift_target:ok", 20), ("can_split:ok", 100), ("max_open:ok", 50)):
        if stats.counts.get(key, 0) < least:
            core.vacuity(out, f"vacuity gate: {key}={stats.counts.get(key, 0)} < {least}")
    return core.finish("C18", tier, seed, stats, out, t0,
                       rule="(document, range inside an isolating node, payload, replace-family operation) incl. the range covering the node's entire content; "
                            "lift_target for block ranges and can_split for positions inside isolating nodes; documents: TLC-generated shape-bounded documents of "
                            "the isolating/table-like small schema + random documents of the isolating and table-like bundled variants",
                       assumptions=["operations that raise are C11's business and are skipped here", "projection", "TLC/SANY, Json module"])


def replay(path: str) -> int:
    with open(path) as f:
        body = json.load(f)
    print(json.dumps(body["replay"])[:3000])
    return 0
