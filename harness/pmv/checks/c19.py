"""C19 - HTML import is total and schema-valid; export then import is the identity.

M: spec/mc/MC_Dom.tla - Render is well nested and the context-expression matcher agrees with brute-force path
   matching on the specification.
G: spec/mc/MC_HtmlGen.tla enumerates every well-nested HTML fragment over tag vocabularies (block, inline,
   list, table, ignorable tags; with and without attributes; whitespace variants); each is parsed by the
   library under a watchdog; every TLC-generated bundled document is serialised, tokenized with the standard
   library's HTML tokenizer and parsed back.
T: random bundled documents (ordered lists with order != 1, images/links with all attributes, code blocks with
   inner spaces); context-restricted rule families observed through marker elements.
Judged by spec/trace/Trace_Dom.tla.
"""
from __future__ import annotations

import html as htmlmod
import json
import random
from html.parser import HTMLParser

from .. import core, gen, proj, schemas, tlc, trace, universe, watchdog
from ..core import Stats, Violation
from ..schemas import canon
from .c02 import short

VOID = {"br", "hr", "img"}


class Tok(HTMLParser):
    def __init__(self):
        super().__init__(convert_charrefs=True)
        self.out = []

    def handle_starttag(self, tag, attrs):
        k = "v" if tag in VOID else "o"
        self.out.append({"k": k, "tag": tag, "attrs": [{"n": n, "v": canon(v if v is not None else "")} for n, v in attrs], "text": []})

    def handle_endtag(self, tag):
        self.out.append({"k": "c", "tag": tag, "attrs": [], "text": []})

    def handle_data(self, data):
        self.out.append({"k": "t", "tag": "", "attrs": [], "text": proj.units(data)})


def tokenize(s):
    t = Tok()
    t.feed(s)
    t.close()
    return t.out


NUMERIC_HTML_ATTRS = {"start"}


def dom_tables(name):
    """The published rendering rules of the bundled schemas, as data for PMDom."""
    def r(tag, void=False, inner="", attrs=(), back=(), fixed=(), tagAttr="", tags=None):
        return {"tag": tag, "void": void, "inner": inner, "attrs": [{"html": h, "doc": d, "omit": o} for h, d, o in attrs],
                "back": list(back), "fixed": [{"n": n, "v": v} for n, v in fixed], "tagAttr": tagAttr, "tags": tags or {}}
    nodes = {
        "paragraph": r("p"), "blockquote": r("blockquote"), "horizontal_rule": r("hr", void=True),
        "heading": r("", tagAttr="level", tags={str(i): f"h{i}" for i in range(1, 7)}, back=["level"]),
        "code_block": r("pre", inner="code"),
        "image": r("img", void=True, attrs=[("src", "src", ""), ("alt", "alt", ""), ("title", "title", "")], back=["src", "title"], fixed=[("alt", "null")]),
        "hard_break": r("br", void=True),
    }
    if name != "basic":
        nodes.update({
            "ordered_list": r("ol", attrs=[("start", "order", "1")], fixed=[("order", "1")]),
            "bullet_list": r("ul"), "list_item": r("li"),
        })
    marks = {
        "link": {"tag": "a", "attrs": [{"html": "href", "doc": "href", "omit": ""}, {"html": "title", "doc": "title", "omit": ""}],
                 "back": ["href"], "fixed": [{"n": "title", "v": "null"}]},
        "em": {"tag": "em", "attrs": [], "back": [], "fixed": []},
        "strong": {"tag": "strong", "attrs": [], "back": [], "fixed": []},
        "code": {"tag": "code", "attrs": [], "back": [], "fixed": []},
    }
    return {"nodes": nodes, "marks": marks}


def markattrs_table(docs):
    tab = {}
    for d in docs:
        for t in d:
            for m in t["m"]:
                if m["a"] not in tab:
                    tab[m["a"]] = {k: canon(v) for k, v in json.loads(m["a"]).items()}
    tab.setdefault("{}", {})
    return tab


def html_attr_norm(toks):
    """Numeric HTML attributes (ol start) are compared as numbers."""
    for t in toks:
        for a in t["attrs"]:
            if a["n"] in NUMERIC_HTML_ATTRS:
                try:
                    a["v"] = canon(int(json.loads(a["v"])))
                except Exception:  # noqa: BLE001
                    pass
    return toks


TIMEOUTS = {"n": 0}
MAX_TIMEOUTS = 8      # after that many hangs further probing only costs time


def parse_html(sch, s, seconds=5.0):
    import lxml.html
    from prosemirror.model import DOMParser
    if TIMEOUTS["n"] >= MAX_TIMEOUTS:
        return {"kind": "skipped-after-timeouts"}, None

    def go():
        frag = lxml.html.fragment_fromstring(s, create_parent="document-fragment")
        return DOMParser.from_schema(sch).parse(frag)
    k, v = watchdog.call(go, seconds)
    if k == "ok":
        return {"kind": "ok"}, v
    if k == "timeout":
        TIMEOUTS["n"] += 1
        return {"kind": "timeout"}, None
    return {"kind": "raise", "cls": type(v).__name__, "msg": str(v)[:120]}, None


def ev_doc(b, sch, rd):
    from prosemirror.model import DOMSerializer
    toks = proj.proj(rd)
    di = b.doc(toks)
    k, v = watchdog.call(lambda: str(DOMSerializer.from_schema(sch).serialize_fragment(rd.content)), 5.0)
    if k != "ok":
        res = {"kind": "raise", "cls": "Timeout" if k == "timeout" else type(v).__name__, "msg": str(v)[:100]}
        b.add({"ev": "Serialize", "di": di, "res": res, "html": []})
        return
    s = v
    b.add({"ev": "Serialize", "di": di, "res": {"kind": "ok"}, "html": html_attr_norm(tokenize(s)), "src": s[:300]})
    res, back = parse_html(sch, s)
    if res["kind"] == "skipped-after-timeouts":
        return
    b.add({"ev": "RoundTrip", "di": di, "res": res, "back": proj.proj(back) if back is not None else [], "src": s[:300]})


def build_html(toks):
    out = []
    for t in toks:
        if t["k"] in ("o", "v"):
            attrs = "".join(f' {a["n"]}="{htmlmod.escape(a["v"])}"' for a in t["attrs"])
            out.append(f"<{t['tag']}{attrs}>")
        elif t["k"] == "c":
            out.append(f"</{t['tag']}>")
        else:
            out.append(htmlmod.escape(t["text"], quote=False))
    return "".join(out)


def ev_parse(b, sch, s, tag=""):
    res, doc = parse_html(sch, s, 3.0)
    if res["kind"] == "skipped-after-timeouts":
        return None
    return b.add({"ev": "Parse", "src": s[:400], "res": res, "out": proj.proj(doc) if doc is not None else [], "tag": tag})


VOCABS = {
    "block": {"tags": [["p", []], ["div", []], ["blockquote", []], ["h1", []], ["pre", []], ["code", []]],
              "voids": [["hr", []], ["br", []]], "texts": ["x", " ", " x ", "x  y", "\n"]},
    "inline": {"tags": [["p", []], ["b", []], ["strong", []], ["em", []], ["i", []], ["a", [["href", "u"]]], ["a", []], ["span", [["style", "font-weight: bold"]]], ["code", []]],
               "voids": [["img", [["src", "s"]]], ["img", []], ["br", []]], "texts": ["x", " ", "x y "]},
    "list": {"tags": [["ul", []], ["ol", []], ["ol", [["start", "3"]]], ["li", []], ["p", []], ["blockquote", []]],
             "voids": [["hr", []]], "texts": ["x", " "]},
    "table": {"tags": [["table", []], ["tr", []], ["td", []], ["p", []], ["script", []], ["foo", []], ["div", []]],
              "voids": [["br", []]], "texts": ["x", " "]},
}


def html_universe(vname, max_nodes, stats):
    v = VOCABS[vname]
    inp = {"html": {"tags": [{"tag": t, "attrs": [{"n": n, "v": val} for n, val in a]} for t, a in v["tags"]],
                    "voids": [{"tag": t, "attrs": [{"n": n, "v": val} for n, val in a]} for t, a in v["voids"]],
                    "texts": v["texts"], "maxNodes": max_nodes, "maxDepth": 3}}
    path = tlc.write_input(inp, "htmlgen")
    r = tlc.run_tlc("MC_HtmlGen", "MC_HtmlGen.cfg", env={"PMV_INPUT": path}, workers=1, heap="6g")
    if not r.ok:
        raise core.MachineryError("MC_HtmlGen: " + "; ".join(r.errors[:3]) + r.stdout[-1500:])
    stats.add_tlc(r, f"G MC_HtmlGen[{vname}]")
    return [p["toks"] for p in r.printed]


def context_schema(ctx_expr):
    """The test schema plus two inline leaf types and two rules for <x-mark>: the first restricted
    by the context expression, the second unrestricted."""
    spec = schemas.spec_of("test")
    spec["nodes"] = dict(spec["nodes"])
    spec["nodes"]["hit"] = {"inline": True, "group": "inline", "parseDOM": [{"tag": "x-mark", "context": ctx_expr}], "toDOM": lambda n: ["x-hit"]}
    # node types that belong to several groups (context parts name either)
    for nm, extra in (("blockquote", "container"), ("list_item", "item container"), ("heading", "titled")):
        nd = dict(spec["nodes"][nm])
        nd["group"] = (nd.get("group", "") + " " + extra).strip()
        spec["nodes"][nm] = nd
    spec["nodes"]["miss"] = {"inline": True, "group": "inline", "parseDOM": [{"tag": "x-mark"}], "toDOM": lambda n: ["x-miss"]}
    return spec


CONTEXTS = ["blockquote/", "doc//", "list_item/paragraph/|blockquote/", "paragraph/", "blockquote//", "block/", "bullet_list//paragraph/",
            "doc/blockquote/paragraph/", "heading/ | list_item//", "container/paragraph/", "container//", "titled/|item//"]


def style_rules(spec):
    """The style parse rules as the schema author declared them: [prop, value ("" = any), mark]."""
    out = []
    for mname, m in spec.get("marks", {}).items():
        for r in m.get("parseDOM", []) or []:
            st = r.get("style")
            if st and not r.get("getAttrs") and not r.get("context") and not r.get("clearMark"):
                prop, _, val = st.partition("=")
                out.append({"prop": prop, "value": val, "mark": mname})
    return out


STYLE_DECLS = [[("font-weight", "bold")], [("font-style", "italic")], [("font-style", "normal")], [("font-weight", "700")], [("color", "red")],
               [("font-weight", "bold"), ("font-style", "italic")], [("color", "red"), ("font-style", "italic")], [("font-style", "oblique"), ("font-weight", "bold")],
               [("text-decoration", "underline")], [("font-styles", "italic")], [("font", "italic")]]
# (element that carries the style attribute, what surrounds it, the textblock type the text ends up in)
STYLE_SHAPES = [("span", "<p>{}</p>", "paragraph"), ("span", "<h1>{}</h1>", "heading"), ("span", "<pre>{}</pre>", "code_block"), ("span", "{}", "paragraph"),
                ("span", "<ul><li><p>{}</p></li></ul>", "paragraph"), ("b", "<p>{}</p>", "paragraph")]


def ev_style(b, sch, decls, shape):
    el, frame, parent = shape
    css = "; ".join(f"{p}: {v}" for p, v in decls)
    html = frame.format(f'<{el} style="{css}">QX</{el}>ZY')
    res, doc = parse_html(sch, html, 3.0)
    if res["kind"] == "skipped-after-timeouts":
        return None
    inside, after, found = [], [], False
    if doc is not None:
        def visit(node, pos, par, index):
            nonlocal inside, after, found
            if node.is_text and "QX" in node.text:
                found = True
                inside = [m.type.name for m in node.marks]
            if node.is_text and "ZY" in node.text and "QX" not in node.text:
                after = [m.type.name for m in node.marks]
        doc.descendants(visit)
    base = ["strong"] if el == "b" else []
    return b.add({"ev": "Style", "src": html, "res": res, "out": proj.proj(doc) if doc is not None else [], "parent": parent,
                  "decls": [{"prop": p, "value": v} for p, v in decls], "inside": inside, "tagmarks": base, "after": after,
                  "found": found or (doc is not None and not decls)})


def parse_ctx(expr):
    import re
    return [alt.split("/") for alt in re.split(r"\s*\|\s*", expr)]


def run(tier: str, seed: int, t0: float) -> int:
    from prosemirror.model import DOMSerializer, Schema
    stats = Stats()
    out: list[Violation] = []
    thorough = tier == "thorough"
    rng = random.Random(seed)
    jobs = []
    # ---- M: spec-level sanity of Render and ContextMatches
    schT, jsT = schemas.build("test")
    gb = universe.bounds(4 if not thorough else 5, max_depth=3, max_run=2, chars=(97, 32, 160), marksets=((), (universe.EM,), ({"t": "link", "a": "{\"href\":\"u\",\"title\":null}"},),
                                                                                                 ({"t": "link", "a": "{\"href\":\"\",\"title\":\"\"}"},)),
                         # (attribute values that are present but empty must survive export and import)
                         attrs={"heading": [{"level": "1"}, {"level": "2"}],
                                "image": [{"src": "\"s\"", "alt": "null", "title": "null"}, {"src": "\"s\"", "alt": "\"\"", "title": "\"\""}],
                                "ordered_list": [{"order": "1"}, {"order": "3"}]})
    sch, js, docs = universe.tlc_docs("test", gb, stats)
    dom = dom_tables("test")
    path = tlc.write_input({"schema": js, "gen": gb, "dom": dom, "markattrs": markattrs_table(docs)}, "mcdom")
    r = tlc.run_tlc("MC_Dom", "MC_Dom.cfg", env={"PMV_INPUT": path}, timeout=3000)
    if not r.ok:
        raise core.MachineryError("MC_Dom: " + "; ".join(r.errors[:3]) + r.stdout[-1500:])
    stats.add_tlc(r, "M MC_Dom")
    # ---- G: every TLC-generated document: serialise, tokenize, parse back
    b = trace.Batch(js)
    sel = docs if thorough or len(docs) <= 1500 else rng.sample(docs, 1500)
    for d in sel:
        ev_doc(b, sch, proj.unproj(sch, d))
    stats.bounds["docs_exhaustive"] = len(sel)
    # ---- G: HTML fragments enumerated by TLC
    for vname in VOCABS:
        frs = html_universe(vname, 3 if not thorough else 4, stats)
        if not thorough and len(frs) > 2500:
            frs = rng.sample(frs, 2500)
        stats.bounds[f"html_{vname}"] = len(frs)
        for toks in frs:
            ev_parse(b, sch, build_html(toks), vname)
    # hand-made edge cases from the property's wording
    for s in ["<ul></ul>", "<ol></ol>", "<ul><ul></ul></ul>", "<a>x</a>", "<img>", "<p><strong>a</strong> <em>b</em></p>", "<pre><code>a  b</code></pre>",
              "<pre> x </pre>", "<p style=\"font-weight: bold\">x</p>", "<span style=\"font-style: italic\">x</span>", "<foo><bar>x</bar></foo>", "",
              "<li>x</li>", "<td>x</td>", "x<p>y</p>z", "<p><code>a</code></p>", "<h1><code>a</code></h1>", "<blockquote><pre><code>x</code></pre></blockquote>",
              "<ol start=\"3\"><li><p>x</p></li></ol>", "<p>a&amp;b &lt; c</p>", "<a href=\"x&quot;y\">l</a>"]:
        ev_parse(b, sch, s, "hand")
    # style attributes: declared style rules apply to the element's content (where the parent allows the mark) and to nothing else
    for decls in STYLE_DECLS:
        for shape in STYLE_SHAPES:
            ev_style(b, sch, decls, shape)
    # shaped documents beyond the token bound: a single space between an inline node that is not text and the text after it
    em_ = sch.marks["em"].create()
    img_ = sch.node("image", {"src": "s"})
    br_ = sch.node("hard_break")
    T_ = lambda c, *ms: sch.text(c, list(ms))                  # noqa: E731
    for kids in ([img_, T_(" a cat")], [T_("x"), img_, T_(" y")], [br_, T_(" z")], [img_.mark([em_]), T_(" b"), img_, T_(" c", em_)],
                 [T_("a "), img_, T_(" b "), img_], [T_("x", em_), T_(" y")]):
        ev_doc(b, sch, sch.node("doc", None, [sch.node("paragraph", None, kids)]))
        ev_doc(b, sch, sch.node("doc", None, [sch.node("heading", {"level": 2}, kids)]))
    jobs.append(("Trace_Dom", b, "G dom[test]", {"dom": dom, "markattrs": markattrs_table(b.docs), "stylerules": style_rules(schemas.spec_of("test"))}))
    # ---- T: random bundled documents
    for name in ("basic", "test"):
        sch2, js2, prs = universe.random_docs(name, 60 if not thorough else 600, rng, size=1.3)
        b2 = trace.Batch(js2)
        for toks, rd in prs:
            ev_doc(b2, sch2, rd)
        jobs.append(("Trace_Dom", b2, f"T dom[{name}]", {"dom": dom_tables(name), "markattrs": markattrs_table(b2.docs)}))
    # ---- context rules
    ser = DOMSerializer.from_schema(schT)
    ctx_docs = [rd for _, rd in universe.random_docs("test", 40 if not thorough else 300, rng, size=1.2)[2]]
    for expr in CONTEXTS:
        spec = context_schema(expr)
        try:
            schC = Schema(spec)
        except Exception as ex:  # noqa: BLE001
            raise core.MachineryError(f"context schema {expr}: {ex}")
        jsC = schemas.export(schemas._strip(spec), "ctx")
        bC = trace.Batch(jsC)
        alts = parse_ctx(expr)
        for rd in ctx_docs:
            # put a marker into a random inline position of the serialised document
            toks = proj.proj(rd)
            poss = [p for p in range(len(toks) + 1) if rd.resolve(p).parent.inline_content and not rd.resolve(p).parent.type.spec.get("code")]
            if not poss:
                continue
            for p in rng.sample(poss, min(len(poss), 2)):
                rp = rd.resolve(p)
                stack = [rp.node(k).type.name for k in range(rp.depth + 1)]
                html_full = insert_marker(ser, rd, p)
                if html_full is None:
                    continue
                res, doc = parse_html(schC, html_full, 3.0)
                if res["kind"] == "skipped-after-timeouts":
                    continue
                hit = miss = False
                if doc is not None:
                    def visit(node, pos, parent, index):
                        nonlocal hit, miss
                        hit = hit or node.type.name == "hit"
                        miss = miss or node.type.name == "miss"
                    doc.descendants(visit)
                bC.add({"ev": "Context", "expr": expr, "alts": alts, "stack": stack, "res": res, "hit": hit, "observable": hit != miss, "src": html_full[:300]})
        jobs.append(("Trace_Dom", bC, f"T context[{expr}]", {"dom": dom, "markattrs": {"{}": {}}}))
    vs = trace.validate_many(jobs, stats)
    for (mod, bb, what, extra), verdicts in zip(jobs, vs):
        for e in bb.events:
            v = verdicts[e["id"]]
            stats.traces += 1
            stats.count(f"{e['ev']}:{v}")
            if v.startswith("skip"):
                stats.skipped += 1
            case = {"ev": e["ev"], "src": e.get("src", "")[:200]}
            if "di" in e:
                case["doc"] = short(bb.docs[e["di"] - 1])[:300]
            if e["ev"] == "Context":
                case.update({"expr": e["expr"], "stack": e["stack"], "hit": e["hit"]})
            stats.case(case, nontrivial=not v.startswith("skip"))
            if v.startswith("bad:"):
                sig = {"ev": e["ev"]}
                if e["res"].get("kind") == "raise":
                    sig["exc"] = e["res"]["cls"]
                case["res"] = e["res"]
                if e["ev"] in ("RoundTrip",):
                    case["back"] = short(e["back"])[:300]
                if e["ev"] == "Parse":
                    case["out"] = short(e["out"])[:300]
                api = {"Serialize": "DOMSerializer.serialize_fragment", "RoundTrip": "DOMParser.parse(serialize)", "Parse": "DOMParser.parse", "Context": "ParseContext.matches_context", "Style": "DOMParser.parse (style rules)"}[e["ev"]]
                out.append(Violation(v[4:], api, f"{what}: {json.dumps(case)[:900]}", {"schema": bb.schema_js["name"], "event": {k2: v2 for k2, v2 in e.items() if k2 not in ("html",)},
                                                                                       "doc": bb.docs[e["di"] - 1] if "di" in e else None}, sig))
    for key, least in (("Serialize:ok", 500), ("RoundTrip:ok", 200), ("Parse:ok", 2000), ("Context:ok", 100)):
        if TIMEOUTS["n"] >= MAX_TIMEOUTS:
            stats.notes.append("probing stopped after %d watchdog timeouts" % TIMEOUTS["n"])
            break
        if stats.counts.get(key, 0) < least:
            core.vacuity(out, f"vacuity gate: {key}={stats.counts.get(key, 0)} < {least}")
    return core.finish("C19", tier, seed, stats, out, t0,
                       rule="(a) HTML fragments: every well-nested fragment of <= 3/4 nodes over four tag vocabularies (block, inline+attributes+styles, list, table/ignorable/unknown) "
                            "enumerated by TLC + hand-made edge cases; (c)/(d) every TLC-generated bundled document and random bundled documents: serialise, tokenize, parse back; "
                            "(b) twelve context expressions (three through second groups of multi-group node types) x marker positions in random documents",
                       assumptions=["lxml's HTML tokenisation / tag-soup repair and CSS selector matching are outside the specification",
                                    "the serialised string is tokenized with the standard library's html.parser",
                                    "round trip claimed for whitespace-normal documents whose attributes the bundled rules carry both ways"])


def insert_marker(ser, rd, p):
    """HTML of the document with <x-mark></x-mark> at document position p (inside inline content)."""
    from prosemirror.model import Fragment, Slice
    # split the document at p into two valid halves is not generally possible; instead insert a
    # unique text sentinel, serialise, and replace the sentinel by the marker element
    sentinel = "⁣MARK⁣"
    try:
        d2 = rd.replace(p, p, Slice(Fragment.from_(rd.type.schema.text(sentinel)), 0, 0))
        s = str(ser.serialize_fragment(d2.content))
    except Exception:  # noqa: BLE001
        return None
    if s.count(sentinel) != 1:
        return None
    return s.replace(sentinel, "<x-mark></x-mark>")


def replay(path: str) -> int:
    with open(path) as f:
        body = json.load(f)
    print(json.dumps(body["replay"])[:3000])
    return 0
