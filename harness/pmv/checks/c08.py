"""C08 - position maps and mappings obey the documented mapping algebra.

M: spec/mc/MC_Map.tla, MC_Mapping.tla - the laws as invariants over every small map /
   every short construction history (TLC, exhaustive).
G: the same machines print every map / history with the specification's answer to
   every query; the answers are replayed into StepMap / Mapping and compared.
T: mappings of real step histories (rebasing shape with mirrors) are recorded from
   the library and validated by spec/trace/Trace_Map.tla.
"""
from __future__ import annotations

import json
import random
import time

from .. import core, tlc
from ..core import Stats, Violation


def _stepmap(rec):
    from prosemirror.transform import StepMap
    flat = [x for r in rec["ranges"] for x in r]
    return StepMap(flat, bool(rec["inv"]))


def _mapping(rec):
    from prosemirror.transform import Mapping
    mirror = [x for pr in rec["mirror"] for x in pr] or None
    return Mapping([_stepmap(m) for m in rec["maps"]], mirror, rec["from"], rec["to"])


def _byindex(q):
    """ToJson renders a function with domain 0..n as an object keyed by "0".."n"."""
    if isinstance(q, dict):
        return [q[str(i)] for i in range(len(q))]
    return q


def _guard(fn):
    try:
        return ("ok", fn())
    except Exception as ex:  # noqa: BLE001 - any exception is an observable outcome
        return ("raise", type(ex).__name__)


def replay_map(ev, stats: Stats, out: list):
    """One MC_Map Emit record against StepMap."""
    ev["q"] = _byindex(ev["q"])
    sm = _stepmap(ev)
    desc = {"ranges": ev["ranges"], "inv": ev["inv"]}
    npos = ev["npos"]
    for p in range(npos):
        for ai, assoc in ((0, -1), (1, 1)):
            exp = ev["q"][p][ai]
            stats.count("map_query")
            got = _guard(lambda: sm.map(p, assoc))
            if got != ("ok", exp["pos"]):
                out.append(Violation("MapPos", "StepMap.map", f"map {desc} pos={p} assoc={assoc}: spec {exp['pos']} code {got}",
                                     {"kind": "stepmap", "map": desc, "pos": p, "assoc": assoc, "expected": exp}))
            got = _guard(lambda: (lambda r: {"pos": r.pos, "del": r.del_info, "rec": -1 if r.recover is None else r.recover})(sm.map_result(p, assoc)))
            exp = dict(exp, rec=pack_rec(exp["rec"]))
            want = {"pos": exp["pos"], "del": exp["del"], "rec": exp["rec"]}
            if got != ("ok", want):
                out.append(Violation("MapRes", "StepMap.map_result", f"map {desc} pos={p} assoc={assoc}: spec {want} code {got}",
                                     {"kind": "stepmap", "map": desc, "pos": p, "assoc": assoc, "expected": exp}))
            elif exp["rec"] != -1:
                r = sm.map_result(p, assoc)
                flags = {"deleted": r.deleted, "before": r.deleted_before, "after": r.deleted_after, "across": r.deleted_across}
                d = exp["del"]
                wantf = {"deleted": bool(d & 8), "before": bool(d & 5), "after": bool(d & 6), "across": bool(d & 4)}
                if flags != wantf:
                    out.append(Violation("DelFlags", "MapResult.deleted*", f"map {desc} pos={p} assoc={assoc}: spec {wantf} code {flags}",
                                         {"kind": "stepmap", "map": desc, "pos": p, "assoc": assoc, "expected": exp}))
                stats.count("touches_query")
                got = _guard(lambda: sm.touches(p, exp["rec"]))
                if got != ("ok", exp["touches"]):
                    out.append(Violation("Touches", "StepMap.touches", f"map {desc} pos={p} rec={exp['rec']}: spec {exp['touches']} code {got}",
                                         {"kind": "stepmap", "map": desc, "pos": p, "assoc": assoc, "expected": exp}))
                stats.count("recover_query")
                got = _guard(lambda: sm.invert().recover(exp["rec"]))
                if got != ("ok", exp["back"]):
                    out.append(Violation("Recover", "StepMap.recover", f"map {desc} pos={p} rec={exp['rec']}: spec {exp['back']} code {got}",
                                         {"kind": "stepmap", "map": desc, "pos": p, "assoc": assoc, "expected": exp}))
        # a recover value that names no range of an untouched position
        got = _guard(lambda: sm.touches(p, 0))
        if pack_rec(ev["q"][p][0]["rec"]) == -1 and pack_rec(ev["q"][p][1]["rec"]) == -1:
            want_t = any(fe[0] <= p <= fe[1] for fe in ev["foreach"][:1])
            if got != ("ok", want_t):
                out.append(Violation("Touches", "StepMap.touches", f"map {desc} pos={p} rec=0: spec {want_t} code {got}",
                                     {"kind": "stepmap", "map": desc, "pos": p, "assoc": 1, "expected": {"touches": want_t}}))
    stats.count("for_each")
    rows = []
    got = _guard(lambda: sm.for_each(lambda a, b, c, d: rows.append([a, b, c, d])))
    if got[0] != "ok" or rows != ev["foreach"]:
        out.append(Violation("ForEach", "StepMap.for_each", f"map {desc}: spec {ev['foreach']} code {rows if got[0]=='ok' else got}",
                             {"kind": "stepmap", "map": desc, "expected": ev["foreach"]}))
    inv = sm.invert()
    if inv.inverted == sm.inverted or list(inv.ranges) != list(sm.ranges) or inv.invert().inverted != sm.inverted:
        out.append(Violation("InvertMap", "StepMap.invert", f"map {desc}", {"kind": "stepmap", "map": desc}))
    stats.case(desc, nontrivial=len(ev["ranges"]) > 0)


def _mapping_state(mp):
    mirror = mp.mirror or []
    return {"maps": [{"ranges": [list(m.ranges[i:i + 3]) for i in range(0, len(m.ranges), 3)], "inv": bool(m.inverted)} for m in mp.maps],
            "mirror": [[mirror[i], mirror[i + 1]] for i in range(0, len(mirror), 2)],
            "from": mp.from_, "to": mp.to}


def build_mapping(ev):
    from prosemirror.transform import Mapping
    mp = Mapping()
    for o in ev["hist"]:
        op = o["op"]
        if op == "append_map":
            mp.append_map(_stepmap(ev["pool"][o["a"] - 1]))
        elif op == "append_mirror":
            mp.append_map(mp.maps[o["a"]].invert(), o["a"])
        elif op == "append_mapping":
            mp.append_mapping(_mapping(ev["others"][o["a"] - 1]))
        elif op == "append_mapping_inverted":
            mp.append_mapping_inverted(_mapping(ev["others"][o["a"] - 1]))
        elif op == "slice":
            mp = mp.slice(o["a"], o["b"])
        elif op == "invert":
            mp = mp.invert()
    return mp


def replay_mapping(ev, stats: Stats, out: list):
    hist = [(o["op"], o["a"], o["b"]) for o in ev["hist"]]
    rep = {"kind": "mapping", "hist": ev["hist"], "pool": ev["pool"], "others": ev["others"]}
    last = hist[-1][0]
    stats.count("mapping_" + last)
    got = _guard(lambda: build_mapping(ev))
    if got[0] != "ok":
        out.append(Violation("MappingBuild", "Mapping." + last, f"history {hist}: code raised {got[1]}", rep, {"exc": got[1]}))
        return
    mp = got[1]
    want = {"maps": ev["maps"], "mirror": ev["mirror"], "from": ev["from"], "to": ev["to"]}
    st = _mapping_state(mp)
    # mirror tables are compared as relations (pairs), order of registration included
    if st != want:
        out.append(Violation("MappingState", "Mapping." + last, f"history {hist}: spec {want} code {st}", rep))
        return
    # a Mapping of the specification is a value: copy() is the identity, and whatever is appended to the copy afterwards
    # (maps, mirror registrations) leaves the mapping it was taken from as it was.  (slice() is a view that shares its
    # lists with the original by design - as upstream's did - and is not appended to here.)
    def fork():
        cp = mp.copy()
        if _mapping_state(cp) != want:
            return "copy differs"
        for other in (cp,):
            k = len(other.maps)
            other.append_map(_stepmap({"ranges": [[0, 1, 2]], "inv": False}))
            other.append_map(other.maps[k].invert(), k)
            if k:
                other.append_map(other.maps[0].invert(), 0)
        return None if _mapping_state(mp) == want else f"original became {_mapping_state(mp)}"
    stats.count("mapping_fork")
    got = _guard(fork)
    if got != ("ok", None):
        out.append(Violation("CopyAliased", "Mapping.copy", f"history {hist}: {got}", rep))
        return
    for p, pair in enumerate(_byindex(ev["q"])):
        for ai, assoc in ((0, -1), (1, 1)):
            exp = pair[ai]
            stats.count("mapping_query")
            got = _guard(lambda: mp.map(p, assoc))
            if got != ("ok", exp["pos"]):
                out.append(Violation("MappingPos", "Mapping.map", f"history {hist} pos={p} assoc={assoc}: spec {exp['pos']} code {got}", {**rep, "pos": p, "assoc": assoc}))
                continue
            got = _guard(lambda: (lambda r: (r.pos, r.del_info))(mp.map_result(p, assoc)))
            if got != ("ok", (exp["pos"], exp["del"])):
                out.append(Violation("MappingRes", "Mapping.map_result", f"history {hist} pos={p} assoc={assoc}: spec {(exp['pos'], exp['del'])} code {got}", {**rep, "pos": p, "assoc": assoc}))
    stats.case({"hist": hist}, nontrivial=len(hist) > 1)


def run(tier: str, seed: int, t0: float) -> int:
    stats = Stats()
    out: list[Violation] = []
    thorough = tier == "thorough"
    rng = random.Random(seed)
    maxr, maxs = (3, 2)
    maxops = 4 if thorough else 3
    # ---- M: laws on the specification
    r = tlc.run_tlc("MC_Map", "MC_Map.cfg", env={"PMV_MAXRANGES": maxr, "PMV_MAXSIZE": maxs if not thorough else 3}, timeout=3000)
    if not r.ok:
        raise core.MachineryError("MC_Map: " + "; ".join(r.errors[:3]) + r.stdout[-800:])
    stats.add_tlc(r, "M MC_Map laws")
    # ---- M, unbounded: the position laws for maps with up to three ranges of arbitrary integer sizes, gaps and
    # positions, decided symbolically by Apalache (spec/apalache/MapLaws3.tla over PMMapUnrolled, which the TLC run
    # above has just shown to be PMMap!MapPos on every enumerated map: UnrolledAgrees)
    from concurrent.futures import ThreadPoolExecutor
    with ThreadPoolExecutor(max_workers=6) as ex:
        res = list(ex.map(lambda law: (law, *tlc.run_apalache("MapLaws3", law)), tlc.APALACHE_LAWS))
    for law, ok, wall, tail in res:
        if not ok:
            raise core.MachineryError(f"Apalache did not establish MapLaws3!{law}: {tail}")
        stats.tlc_cmds.append(f"M apalache-mc check --length=0 --inv={law} MapLaws3.tla: NoError in {wall:.0f}s (all integer sizes/positions, <= 3 ranges)")
    stats.count("apalache_laws", len(res))
    r = tlc.run_tlc("MC_Mapping", "MC_Mapping.cfg", env={"PMV_MAXOPS": maxops, "PMV_SHARD": 0, "PMV_NSHARDS": 1}, timeout=3000)
    if not r.ok:
        raise core.MachineryError("MC_Mapping: " + "; ".join(r.errors[:3]) + r.stdout[-800:])
    stats.add_tlc(r, "M MC_Mapping laws")
    # ---- G: TLC generates, the code replays
    gr = 3 if thorough else 2
    shards = [{"PMV_MAXRANGES": gr, "PMV_MAXSIZE": 2}]
    res = tlc.run_sharded("MC_Map", "Gen_Map.cfg", shards, subdir="mc", heap="4g")
    for r in res:
        if not r.ok:
            raise core.MachineryError("Gen_Map: " + "; ".join(r.errors[:3]) + r.stdout[-800:])
        stats.add_tlc(r, "G Gen_Map")
        for ev in r.printed:
            replay_map(ev, stats, out)
            stats.traces += 1
    nsh = 6
    shards = [{"PMV_MAXOPS": maxops, "PMV_SHARD": i, "PMV_NSHARDS": nsh} for i in range(nsh)]
    res = tlc.run_sharded("MC_Mapping", "Gen_Mapping.cfg", shards, subdir="mc", heap="3g")
    for r in res:
        if not r.ok:
            raise core.MachineryError("Gen_Mapping: " + "; ".join(r.errors[:3]) + r.stdout[-800:])
        stats.add_tlc(r, "G Gen_Mapping")
        for ev in r.printed:
            replay_mapping(ev, stats, out)
            stats.traces += 1
    # ---- T: mappings of real step histories with mirror registrations made by rebasing
    from .. import ops, proj, rebase, schemas, steps, trace, universe
    from prosemirror.transform import Transform
    jobs = []
    for name in schemas.BUNDLED_PLUS:
        sch2, js2, prs = universe.random_docs(name, 12 if not thorough else 120, rng, size=1.4)
        slices = []
        for toks, rd in prs:
            n = rd.content.size
            for _ in range(2):
                f = rng.randint(0, n)
                t = rng.randint(f, min(n, f + 6))
                try:
                    slices.append(rd.slice(f, t))
                except Exception:  # noqa: BLE001
                    pass
        sg = steps.StepGen(sch2, js2, rng, slices)
        og = ops.OpGen(sch2, js2, rng, slices, sg)
        b2 = trace.Batch(js2)
        for toks, rd in prs:
            tr = Transform(rd)
            for _ in range(rng.randint(1, 5)):
                nm, args, thunk = og.pick(tr)
                ops.run_op(thunk)
            if tr.steps:
                try:
                    rebase.undo_shape(b2, tr, rng)
                except Exception:  # noqa: BLE001 - the construction itself failed in the library: nothing to record
                    stats.count("construction_raised")
            # two concurrent histories against the same base
            tr_r = Transform(rd)
            for _ in range(rng.randint(1, 3)):
                nm, args, thunk = og.pick(tr_r)
                ops.run_op(thunk)
            try:
                info = rebase.rebase(b2, rd, list(tr.steps), list(tr_r.steps), rng)
            except Exception:  # noqa: BLE001 - e.g. a rebased step with positions the document does not have
                info = None
                stats.count("construction_raised")
            if info:
                stats.count("rebased_steps", info["rebased"])
        jobs.append(("Trace_Doc", b2, f"T mappings[{name}]"))
    # ---- T: large maps - sizes and offsets beyond 2^15 / 2^16 (the packed recover value keeps the range index in
    # its low 16 bits; the offset into a deleted range is unbounded).  Positions around the powers of two, mapped
    # through [m, inverse of m] registered as mirrors and through m alone; judged by Trace_Doc!VMapping.
    from prosemirror.transform import Mapping, StepMap
    bbig = trace.Batch(js2)
    for ranges in ([5, 70000, 3], [0, 140000, 0], [2, 3, 1, 10, 66000, 7], [1, 40000, 40000, 50000, 33000, 2]):
        for inverted in (False, True):
            sm = StepMap(ranges).invert() if inverted else StepMap(ranges)
            old_sizes = [ranges[i + (2 if inverted else 1)] for i in range(0, len(ranges), 3)]
            starts = []
            diff = 0
            for i in range(0, len(ranges), 3):
                starts.append(ranges[i] - (diff if inverted else 0))
                diff += ranges[i + (1 if inverted else 2)] - ranges[i + (2 if inverted else 1)]
            ps = set()
            for st_, osz in zip(starts, old_sizes):
                for off in (0, 1, 2, 32767, 32768, 65535, 65536, 65537, 65568, 131072, osz - 1, osz, osz + 1):
                    if 0 <= off <= osz + 1:
                        ps.add(st_ + off)
            qs = [(p_, a_) for p_ in sorted(ps) for a_ in (-1, 1)]
            mp1 = Mapping([sm])
            bbig.add(rebase.snapshot(mp1, qs, tag="big"))
            mp2 = Mapping()
            mp2.append_map(sm)
            mp2.append_map(sm.invert(), 0)
            bbig.add(rebase.snapshot(mp2, qs, roundtrip=True, tag="big-mirror"))
    jobs.append(("Trace_Doc", bbig, "T big maps"))
    # ---- T: every StepMap / Mapping query the repository's own test-suite makes (tracer plug-in)
    from .. import suitetrace
    data, last = suitetrace.record()
    stats.notes.append(f"repository test-suite under the tracer: {last}")
    b3 = trace.Batch(js2)
    seen_q = set()
    for ev in data.get("maps", []):
        key = json.dumps(ev, sort_keys=True)
        if key not in seen_q:
            seen_q.add(key)
            b3.add(dict(ev))
    jobs.append(("Trace_Doc", b3, "T testsuite mappings"))
    vs = trace.validate_many(jobs, stats)
    for (mod, b2, what), verdicts in zip(jobs, vs):
        for e in b2.events:
            v = verdicts[e["id"]]
            stats.traces += 1
            stats.count(f"mapping_T:{e['tag']}:{v}")
            stats.case({"tag": e["tag"], "maps": [m["ranges"] for m in e["maps"]][:6], "mirror": e["mirror"], "from": e["from"], "to": e["to"]},
                       nontrivial=len(e["maps"]) > 1)
            if v.startswith("bad:"):
                bad_q = [q for q in e["q"]][:3]
                out.append(Violation(v[4:], "Mapping.map_result", f"{what}: tag={e['tag']} maps={[(m['ranges'], m['inv']) for m in e['maps']]} mirror={e['mirror']} from={e['from']} to={e['to']} q={bad_q}",
                                     {"kind": "real-history mapping", "event": e}, {"tag": e["tag"]}))
    # vacuity gates
    for key, least in (("mapping_T:undo:ok", 30), ("mapping_T:rebase-slice:ok", 30), ("mapping_T:rebase-full:ok", 20), ("mapping_T:testsuite:ok", 50), ("mapping_T:big:ok", 6), ("mapping_T:big-mirror:ok", 6), ("rebased_steps", 20), ("map_query", 1000), ("touches_query", 100), ("recover_query", 100), ("for_each", 100),
                       ("mapping_append_mapping", 10), ("mapping_append_mapping_inverted", 10),
                       ("mapping_slice", 10), ("mapping_invert", 5), ("mapping_append_mirror", 5)):
        if stats.counts.get(key, 0) < least:
            core.vacuity(out, f"vacuity gate: {key}={stats.counts.get(key, 0)} < {least}")
    stats.exhaustive = True
    stats.bounds = {"map_ranges_M": maxr, "map_sizes": maxs, "map_ranges_G": gr, "mapping_ops": maxops}
    return core.finish("C08", tier, seed, stats, out, t0,
                       rule="every step map with <= N ranges (gap/old/new sizes 0..2, both inversion flags) x every position x both sides; "
                            "every mapping construction history of <= K operations over a pool of maps; distinct = distinct map / history, "
                            "non-trivial = at least one range / more than one operation",
                       assumptions=["mirror law is stated for maps without adjacent ranges (upstream first-match rule)",
                                    "TLC/SANY, Json module, the equality comparison in the replay"])


def pack_rec(rec):
    """The specification's recover value (a pair <<range index, offset>>, <<-1,-1>> for none) as the library's
    packed integer."""
    if isinstance(rec, int):
        return rec
    return -1 if rec[0] == -1 else rec[0] + rec[1] * 65536


def replay(path: str) -> int:
    with open(path) as f:
        body = json.load(f)
    rep = body["replay"]
    print(json.dumps(rep)[:2000])
    return 0
