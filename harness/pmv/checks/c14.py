"""C14 - mark sets are canonical and respect the schema's exclusion and permission rules.

M: spec/mc/MC_Marks.tla - for every configuration of a family (orders, attributes, groups,
   every kind of `excludes` declaration incl. "_" and "", node `marks` declarations) TLC explores
   every mark set reachable by additions/removals and checks the property's wording.
G: the same machine prints every reachable set with the specification's answer to every
   operation; each is replayed into Mark / MarkType / NodeType (one test per transition).
"""
from __future__ import annotations

import itertools
import json
import random
from concurrent.futures import ThreadPoolExecutor

from .. import core, schemas, tlc
from ..core import Stats, Violation

EXCL_CHOICES = [None, "", "_", "m1", "m2", "m3", "g", "m1 m3", "m2 g", "m4", "h", "g h", "h m4"]


def config(excl, order=("m1", "m2", "m3", "m4")):
    """A schema spec for one mark configuration.  excl: dict mark -> excludes text or None."""
    marks = {}
    for m in order:
        ms = {}
        if m == "m1":
            ms["group"] = "g"
        if m == "m2":
            ms["group"] = "g h"          # a mark in two groups
        if m == "m3":
            ms["group"] = "h"
            ms["attrs"] = {"id": {}}
        if m == "m4":
            ms["attrs"] = {"k": {"default": 0}}
        if excl.get(m) is not None:
            ms["excludes"] = excl[m]
        marks[m] = ms
    nodes = {
        "doc": {"content": "(para | plain | none | grp | hgrp | all | sect | sectg | bare | sectall | sectnone)+"},
        # containers without inline content: an explicit list of marks / groups, no declaration (nothing allowed), all, none
        "sect": {"content": "(para | plain)+", "marks": "m1 m3"},
        "sectg": {"content": "para+", "marks": "h m4"},
        "bare": {"content": "para+"},
        "sectall": {"content": "para+", "marks": "_"},
        "sectnone": {"content": "para+", "marks": ""},
        "hgrp": {"content": "text*", "marks": "h"},
        "para": {"content": "text*"},
        "plain": {"content": "text*", "marks": "m1 m3"},
        "none": {"content": "text*", "marks": ""},
        "grp": {"content": "text*", "marks": "g m4"},
        "all": {"content": "text*", "marks": "_"},
        "text": {},
    }
    return {"nodes": nodes, "marks": marks}


UNIVERSE = [("m1", {}), ("m2", {}), ("m3", {"id": 1}), ("m3", {"id": 2}), ("m4", {"k": 0}), ("m4", {"k": 1})]


def family(rng: random.Random, n: int):
    fixed = [
        {},                                            # all default (self-exclusion)
        {"m1": "", "m2": "", "m3": "", "m4": ""},    # nothing excludes anything
        {"m1": "_"},                                   # first excludes all
        {"m4": "_"},                                   # last excludes all
        {"m2": "m1", "m3": ""},                        # later excludes earlier, coexisting m3s
        {"m1": "m2 m3", "m3": ""},                     # earlier excludes later ones
        {"m3": "g"}, {"m2": "g", "m1": "m4"}, {"m4": "h"}, {"m1": "h", "m3": ""},
        {"m1": "m3"}, {"m3": "m1", "m2": ""},          # exclusion across an unrelated mark ranked in between
    ]
    out = [(config(e), e, ("m1", "m2", "m3", "m4")) for e in fixed]
    orders = list(itertools.permutations(("m1", "m2", "m3", "m4")))
    while len(out) < n:
        e = {m: rng.choice(EXCL_CHOICES) for m in ("m1", "m2", "m3", "m4")}
        o = rng.choice(orders)
        out.append((config(e, o), e, o))
    return out[:n]


def replay_config(spec, printed, stats: Stats, out: list, desc):
    from prosemirror.model import Mark, Schema
    schema = Schema(spec)

    def mk(m, shared=False):
        """shared=True: when every attribute has its default value, take the mark the type hands out for `create()`
        without attributes (types whose attributes all have defaults keep one shared instance) instead of building it
        from explicit attributes - equal marks reached on different paths."""
        mt = schema.marks[m["t"]]
        attrs = json.loads(m["a"])
        if shared and all(a.has_default and attrs.get(n) == a.default for n, a in mt.attrs.items()):
            return mt.create()
        return mt.create(attrs)

    def pj(ms):
        return [{"t": x.type.name, "a": schemas.canon(x.attrs)} for x in ms]

    def guard(fn):
        try:
            return fn()
        except Exception as ex:  # noqa: BLE001
            return ("raise", type(ex).__name__)

    def bad(clause, api, detail, extra):
        out.append(Violation(clause, api, f"config {desc}: {detail}", {"config": desc, "spec_marks": {k: {kk: vv for kk, vv in v.items()} for k, v in spec["marks"].items()}, **extra}))

    for ev in printed:
        cur = [mk(m) for m in ev["set"]]
        before = pj(cur)
        stats.case({"config": desc, "set": ev["set"]}, nontrivial=len(ev["set"]) > 0)
        for op in ev["ops"]:
            m = mk(op["m"], shared=True)
            stats.count("add_to_set")
            got = guard(lambda: pj(m.add_to_set(cur)))
            if got != op["add"]:
                bad("AddToSet", "Mark.add_to_set", f"add {op['m']} to {ev['set']}: spec {op['add']} code {got}", {"set": ev["set"], "mark": op["m"], "expected": op["add"]})
            got = guard(lambda: pj(m.remove_from_set(cur)))
            if got != op["remove"]:
                bad("RemoveFromSet", "Mark.remove_from_set", f"remove {op['m']} from {ev['set']}: spec {op['remove']} code {got}", {"set": ev["set"], "mark": op["m"]})
            got = guard(lambda: bool(m.is_in_set(cur)))
            if got != op["isin"]:
                bad("IsInSet", "Mark.is_in_set", f"{op['m']} in {ev['set']}: spec {op['isin']} code {got}", {"set": ev["set"], "mark": op["m"]})
            # same_set: equal iff the addition changed nothing
            added = guard(lambda: m.add_to_set(cur))
            if isinstance(added, list):
                got = guard(lambda: Mark.same_set(added, cur))
                if got != (op["add"] == ev["set"]):
                    bad("SameSet", "Mark.same_set", f"{op['add']} vs {ev['set']}: code {got}", {"set": ev["set"], "mark": op["m"]})
        for tname, tv in ev["types"].items():
            mt = schema.marks[tname]
            stats.count("marktype_ops")
            got = guard(lambda: pj(mt.remove_from_set(cur)))
            if got != tv["removetype"]:
                bad("RemoveType", "MarkType.remove_from_set", f"{tname} from {ev['set']}: spec {tv['removetype']} code {got}", {"set": ev["set"], "type": tname})
            got = guard(lambda: mt.is_in_set(cur) is not None)
            if got != tv["typein"]:
                bad("TypeInSet", "MarkType.is_in_set", f"{tname} in {ev['set']}: spec {tv['typein']} code {got}", {"set": ev["set"], "type": tname})
            for u, want in tv["excludes"].items():
                got = guard(lambda: bool(mt.excludes(schema.marks[u])))
                if got != want:
                    bad("Excludes", "MarkType.excludes", f"{tname} excludes {u}: spec {want} code {got}", {"type": tname, "other": u})
        for nname, nv in ev["parents"].items():
            nt = schema.nodes[nname]
            stats.count("allowed_marks")
            got = guard(lambda: pj(nt.allowed_marks(cur)))
            if got != nv["allowed"]:
                bad("AllowedMarks", "NodeType.allowed_marks", f"{nname} filters {ev['set']}: spec {nv['allowed']} code {got}", {"set": ev["set"], "parent": nname, "expected": nv["allowed"]})
            got = guard(lambda: bool(nt.allows_marks(cur)))
            if got != nv["allows"]:
                bad("AllowsMarks", "NodeType.allows_marks", f"{nname} allows {ev['set']}: spec {nv['allows']} code {got}", {"set": ev["set"], "parent": nname})
            for u, want in nv["allowstype"].items():
                got = guard(lambda: bool(nt.allows_mark_type(schema.marks[u])))
                if got != want:
                    bad("AllowsMarkType", "NodeType.allows_mark_type", f"{nname} allows type {u}: spec {want} code {got}", {"parent": nname, "type": u})
        stats.count("set_from")
        got = guard(lambda: pj(Mark.set_from(list(reversed(cur)))))
        if got != ev["rev"]:
            bad("SetFrom", "Mark.set_from", f"reversed {ev['set']}: spec {ev['rev']} code {got}", {"set": ev["set"]})
        if pj(cur) != before:
            bad("InputMutated", "Mark.*", f"input list {before} became {pj(cur)}", {"set": ev["set"]})


def run(tier: str, seed: int, t0: float) -> int:
    stats = Stats()
    out: list[Violation] = []
    rng = random.Random(seed)
    fam = family(rng, 40 if tier == "quick" else 400)
    plans = []
    for spec, excl, order in fam:
        js = schemas.export(spec, "markcfg")
        universe = [{"t": t, "a": schemas.canon(a)} for (t, a) in UNIVERSE]
        path = tlc.write_input({"schema": js, "gen": {"universe": universe, "maxSet": 5}}, "marks")
        plans.append((spec, {"excludes": excl, "order": list(order)}, path))

    def one(p):
        a = tlc.run_tlc("MC_Marks", "MC_Marks.cfg", env={"PMV_INPUT": p[2]}, workers=1, heap="2g")
        g = tlc.run_tlc("MC_Marks", "Gen_Marks.cfg", env={"PMV_INPUT": p[2]}, workers=1, heap="2g")
        return a, g
    with ThreadPoolExecutor(max_workers=8) as ex:
        results = list(ex.map(one, plans))
    for (spec, desc, _), (a, g) in zip(plans, results):
        if not a.ok:
            raise core.MachineryError(f"MC_Marks on {desc}: " + "; ".join(a.errors[:3]) + a.stdout[-1500:])
        if not g.ok:
            raise core.MachineryError(f"Gen_Marks on {desc}: " + "; ".join(g.errors[:3]) + g.stdout[-1500:])
        stats.add_tlc(a, "M MC_Marks")
        stats.add_tlc(g, "G Gen_Marks")
        stats.traces += len(g.printed)
        replay_config(spec, g.printed, stats, out, desc)
    stats.tlc_cmds = stats.tlc_cmds[:6] + [f"... {len(stats.tlc_cmds) - 6} more runs"]
    for key, least in (("add_to_set", 2000), ("allowed_marks", 1000), ("set_from", 100)):
        if stats.counts.get(key, 0) < least:
            core.vacuity(out, f"vacuity gate: {key}={stats.counts.get(key, 0)} < {least}")
    stats.exhaustive = True
    stats.bounds = {"configurations": len(fam), "mark_universe": len(UNIVERSE), "max_set": 5}
    return core.finish("C14", tier, seed, stats, out, t0,
                       rule="per mark configuration (4 mark types in any order, groups, attributes, every excludes declaration incl. '_' "
                            "and '', 6 parent node types with different `marks` declarations): every mark set reachable by add/remove x "
                            "every operation; distinct = (configuration, set); non-trivial = non-empty set",
                       assumptions=["adding a mark that both excludes and is excluded by a present mark replaces it (upstream order of checks)",
                                    "TLC/SANY, Json module, equality comparison of projected mark lists"])


def replay(path: str) -> int:
    with open(path) as f:
        body = json.load(f)
    print(json.dumps(body["replay"])[:3000])
    return 0
