"""C02 - replacing a range is exactly a splice of the flat token sequence.

M: spec/mc/MC_Replace.tla - Cut/Splice theorems over every small valid document.
G+T: every TLC-generated document x every range (Node.slice, Node.cut) and x every slice
     cut from every generated document (Node.replace), judged by spec/trace/Trace_Doc.tla.
T: random documents of the bundled schemas and variants, slices cut from other documents,
   non-BMP text and positions inside surrogate pairs.
"""
from __future__ import annotations

import json
import random

from .. import core, gen, proj, schemas, tlc, trace, universe
from ..core import Stats, Violation


def outcome(fn):
    try:
        return {"kind": "ok"}, fn()
    except Exception as ex:  # noqa: BLE001
        return {"kind": "raise", "cls": type(ex).__name__,
                "valueerror": isinstance(ex, ValueError), "msg": str(ex)[:120]}, None


def ev_slice(b, sch, doc, di, f, t):
    res, s = outcome(lambda: doc.slice(f, t))
    ev = {"ev": "Slice", "di": di, "from": f, "to": t, "res": res}
    if s is not None:
        ev["out"] = proj.proj_slice(s)
        ev["size"] = s.size
    return b.add(ev)


def ev_cut(b, sch, doc, di, f, t):
    res, fr = outcome(lambda: doc.content.cut(f, t))
    ev = {"ev": "Cut", "di": di, "from": f, "to": t, "res": res}
    if fr is not None:
        ev["out"] = proj.proj_fragment(fr)
    return b.add(ev)


def ev_replace(b, sch, doc, di, f, t, sl, si):
    res, d2 = outcome(lambda: doc.replace(f, t, sl))
    ev = {"ev": "Replace", "di": di, "si": si, "from": f, "to": t, "res": res}
    if d2 is not None:
        ev["out"] = proj.proj(d2)
    return b.add(ev)


def all_cuts(sch, docs_real, open_variants=True):
    """Distinct slices cut from the given documents (every range), as (Slice, projection).  With
    `open_variants` every range is also cut with its parents included (Node.slice(f, t, True): the slice is
    open through the whole spine on both sides, e.g. a single node open at its start and its end) - shapes
    that Node.slice never returns by itself but that pasted / decoded slices and Slice.max_open have."""
    seen = {}

    def add(s):
        p = proj.proj_slice(s)
        k = json.dumps(p, sort_keys=True)
        if k not in seen:
            seen[k] = (s, p)
    for d in docs_real:
        n = d.content.size
        for f in range(n + 1):
            for t in range(f, n + 1):
                try:
                    add(d.slice(f, t))
                except Exception:  # noqa: BLE001
                    continue
                if open_variants and t > f:
                    try:
                        add(d.slice(f, t, True))
                    except Exception:  # noqa: BLE001
                        pass
    return list(seen.values())


def judge(b, verdicts, stats, out, describe):
    trace.tally(verdicts, stats)
    for e in b.events:
        v = verdicts[e["id"]]
        if v.startswith("bad:"):
            clause = v[4:]
            rep = describe(e)
            sig = {}
            if e["res"].get("kind") == "raise":
                sig["exc"] = e["res"]["cls"]
            d = rep.get("doc")
            if d is not None and any(k in e and inside_surrogate(d, e[k]) for k in ("from", "to")):
                sig["cond"] = "position inside a surrogate pair"
            out.append(Violation(clause, rep["api"], rep["detail"], rep, sig))
        elif v.startswith("drift:") and len(stats.drift_samples) < 5:
            stats.drift_samples.append({"verdict": v, "event": {k: e[k] for k in e if k not in ("out",)}})


def run_batches(jobs, stats, out, api_of):
    """jobs: list of (Batch, what)"""
    vs = trace.validate_many([("Trace_Doc", b, what) for b, what in jobs], stats)
    for (b, what), verdicts in zip(jobs, vs):
        run_batch(b, stats, out, api_of, what, verdicts)


def inside_surrogate(d, p):
    return 0 < p < len(d) and d[p - 1]["k"] == "x" and d[p]["k"] == "x" \
        and 0xD800 <= d[p - 1]["c"] < 0xDC00 and 0xDC00 <= d[p]["c"] < 0xE000


def run_batch(b, stats, out, api_of, what, verdicts):

    def describe(e):
        d = b.docs[e["di"] - 1]
        rep = {"api": api_of[e["ev"]], "schema": b.schema_js["name"], "event": e, "doc": d,
               "detail": f"{e['ev']} from={e.get('from')} to={e.get('to')} res={e['res']} doc={short(d)}"}
        if "si" in e:
            rep["slice"] = b.slices[e["si"] - 1]
            rep["detail"] += f" slice={short(rep['slice']['toks'])}({rep['slice']['os']},{rep['slice']['oe']})"
        return rep
    judge(b, verdicts, stats, out, describe)
    for e in b.events:
        stats.case({"ev": e["ev"], "from": e.get("from"), "to": e.get("to"), "doc": short(b.docs[e["di"] - 1]),
                    "res": e["res"]["kind"]}, nontrivial=not verdicts[e["id"]].startswith("skip"))


def short(toks):
    out = []
    for t in toks:
        if t["k"] == "o":
            out.append("<" + t["t"] + ">")
        elif t["k"] == "c":
            out.append("</>")
        elif t["k"] == "l":
            out.append("[" + t["t"] + "]")
        else:
            out.append(chr(t["c"]) if 32 <= t["c"] < 127 else "u%04x" % t["c"])
        if t["m"]:
            out[-1] += "^" + "".join(m["t"][0] for m in t["m"])
    return "".join(out)


API = {"Slice": "Node.slice", "Cut": "Fragment.cut", "Replace": "Node.replace"}


def run(tier: str, seed: int, t0: float) -> int:
    stats = Stats()
    out: list[Violation] = []
    thorough = tier == "thorough"
    rng = random.Random(seed)
    # ---- M
    sch, js = schemas.build("s1t")
    mb = universe.bounds(6 if not thorough else 7)
    path = tlc.write_input({"schema": js, "gen": mb}, "mc")
    r = tlc.run_tlc("MC_Replace", "MC_Replace.cfg", env={"PMV_INPUT": path}, timeout=3000)
    if not r.ok:
        raise core.MachineryError("MC_Replace: " + "; ".join(r.errors[:3]) + r.stdout[-1500:])
    stats.add_tlc(r, "M MC_Replace")
    # ---- G + T exhaustive small scope
    # two textblock types, one of them with two attribute values: a replace that rebuilds a node from the wrong
    # side (slice instead of document) must show in the markup
    # ... and two links that differ only in an attribute: text on the two sides of a seam with marks of the same type
    # but different attributes must not be merged
    LU = {"t": "link", "a": "{\"href\":\"u\"}"}
    LV = {"t": "link", "a": "{\"href\":\"v\"}"}
    gb = universe.bounds(5 if not thorough else 6, attrs={"h": [{"level": "1"}, {"level": "2"}]},
                         marksets=((), (universe.EM,), (LU,), (LV,)))
    sch, js, docs = universe.tlc_docs("s1t", gb, stats)
    real = [proj.unproj(sch, d) for d in docs]
    for d, rd in zip(docs, real):
        if proj.proj(rd) != d:
            raise core.MachineryError("projection round trip failed on a generated document")
    cuts = all_cuts(sch, real)
    b = trace.Batch(js)
    budget = 60000 if not thorough else 600000
    pairs_ = []
    for d, rd in zip(docs, real):
        di = b.doc(d)
        n = len(d)
        for f in range(n + 1):
            for t in range(f, n + 1):
                ev_slice(b, sch, rd, di, f, t)
                ev_cut(b, sch, rd, di, f, t)
                pairs_.append((rd, di, f, t))
    total = len(pairs_) * len(cuts)
    stats.bounds["replace_triples_total"] = total
    stats.exhaustive = total <= budget
    if total <= budget:
        chosen = [(rd, di, f, t, sl, p) for (rd, di, f, t) in pairs_ for (sl, p) in cuts]
    else:
        # a uniform sample of (document, range, slice) triples, drawn without building the product
        seen_t = set()
        chosen = []
        while len(chosen) < budget:
            i, j = rng.randrange(len(pairs_)), rng.randrange(len(cuts))
            if (i, j) in seen_t:
                continue
            seen_t.add((i, j))
            chosen.append((*pairs_[i], *cuts[j]))
    for (rd, di, f, t, sl, p) in chosen:
        ev_replace(b, sch, rd, di, f, t, sl, b.slice(p))
    stats.bounds["replace_triples_run"] = len(chosen)
    stats.bounds["docs_exhaustive"] = len(docs)
    stats.bounds["slices_exhaustive"] = len(cuts)
    jobs = [(b, "G+T")]
    # ---- T random on bundled schemas and variants
    n_docs = 30 if not thorough else 300
    for name in schemas.BUNDLED_PLUS + ["s1", "s3", "bm", "at", "grid"]:
        sch, js, pairs = universe.random_docs(name, n_docs, rng)
        b = trace.Batch(js)
        slices = []
        for toks, rd in pairs:
            n = rd.content.size
            for _ in range(3):
                f = rng.randint(0, n)
                t = rng.randint(f, n)
                try:
                    s = rd.slice(f, t)
                    slices.append((s, proj.proj_slice(s)))
                    if t > f:
                        s2 = rd.slice(f, t, True)        # parents included: open through the whole spine
                        slices.append((s2, proj.proj_slice(s2)))
                except Exception:  # noqa: BLE001
                    pass
        for toks, rd in pairs:
            di = b.doc(toks)
            n = rd.content.size
            for _ in range(6):
                f = rng.randint(0, n)
                t = rng.randint(f, n)
                ev_slice(b, sch, rd, di, f, t)
                ev_cut(b, sch, rd, di, f, t)
                # same-document re-insertion and foreign slices
                try:
                    own = rd.slice(f, t)
                    ev_replace(b, sch, rd, di, f, t, own, b.slice(proj.proj_slice(own)))
                except Exception:  # noqa: BLE001
                    pass
                for _ in range(2):
                    if slices:
                        sl, p = rng.choice(slices)
                        ev_replace(b, sch, rd, di, f, t, sl, b.slice(p))
                # foreign slices whose open depths fit the range (most random ones do not)
                da = gen.depth_array(toks)                 # (depths from the tokens, not from the library's resolve)
                df, dt = da[f], da[t]
                fitting = [(sl, p) for sl, p in slices if p["os"] <= df and df - p["os"] == dt - p["oe"] and (p["os"] or p["oe"])]
                for sl, p in (fitting if len(fitting) <= 3 else rng.sample(fitting, 3)):
                    ev_replace(b, sch, rd, di, f, t, sl, b.slice(p))
            # plain deletions between positions of equal depth (the most common edit), also across several levels
            from prosemirror.model import Slice
            da = gen.depth_array(toks)
            same = [(f, t) for f in range(n + 1) for t in range(f, n + 1) if da[f] == da[t] and not inside_surrogate(toks, f) and not inside_surrogate(toks, t)]
            for f, t in (same if len(same) <= 12 else rng.sample(same, 12)):
                ev_replace(b, sch, rd, di, f, t, Slice.empty, b.slice(proj.proj_slice(Slice.empty)))
        jobs.append((b, f"T random[{name}]"))
    # ---- T: every Node.replace / Node.slice on a document that the repository's own test-suite performs
    from .. import suitetrace
    data, last = suitetrace.record()
    stats.notes.append(f"repository test-suite under the tracer: {last}")
    for bs in suitetrace.batches(data, {"Replace", "Slice"}):
        jobs.append((bs, f"T testsuite[{bs.schema_js['name']}]"))
    run_batches(jobs, stats, out, API)
    for key, least in (("verdict:ok", 2000),):
        if stats.counts.get(key, 0) < least:
            core.vacuity(out, f"vacuity gate: {key}={stats.counts.get(key, 0)} < {least}")
    return core.finish("C02", tier, seed, stats, out, t0,
                       rule="(document, range) for Node.slice/Fragment.cut and (document, range, slice) for Node.replace; documents: all "
                            "TLC-generated valid documents within shape bounds + seeded random documents of the bundled schemas/variants; "
                            "slices: every cut of every generated document / cuts of other random documents; non-trivial = inside the "
                            "property's quantifier (valid document, in-range positions, valid slice); distinct by (event, range, document, outcome)",
                       assumptions=["projection proj/unproj (cross-checked by round trip)", "TLC/SANY, Json module",
                                    "a slice counts as valid when its closed nodes are valid and marks are canonical and allowed"])


def replay(path: str) -> int:
    with open(path) as f:
        body = json.load(f)
    print(json.dumps(body["replay"])[:3000])
    return 0
