"""C01 - applying a step never yields a schema-invalid document (and C03 shares the driver).

M: spec/mc/MC_Steps.tla - the step algebra of the specification over every small document.
G+T: every TLC-generated document x enumerated steps of all eight types; T: random steps
     (structurally plausible but wrong ones included), each also through the JSON wire
     format; every step emitted by random high-level operations.
Judged by spec/trace/Trace_Doc.tla (VApply, VStepMap).
"""
from __future__ import annotations

import json
import random

from .. import core, ops, proj, schemas, steps, tlc, trace, universe
from ..core import Stats, Violation
from .c02 import all_cuts, short


def small_scope_steps(sch, js, rd, cuts, rng, per_doc):
    """Enumerated steps for one small document: every range x sampled slices, every
    range x every mark, every position x node-mark/attr."""
    from prosemirror.model import Fragment, Slice
    from prosemirror.transform import (AddMarkStep, AddNodeMarkStep, AttrStep, RemoveMarkStep,
                                       RemoveNodeMarkStep, ReplaceAroundStep, ReplaceStep)
    n = rd.content.size
    marks = []
    for mt in sch.marks.values():
        try:
            marks.append(mt.create({a: "u" for a in mt.attrs}))
        except Exception:  # noqa: BLE001
            pass
    wrappers = [nt for nt in sch.nodes.values() if not nt.is_leaf and not nt.is_text and nt != sch.top_node_type]
    out = []
    for f in range(n + 1):
        for t in range(f, n + 1):
            for sl, _p in rng.sample(cuts, min(len(cuts), 3)):
                out.append(ReplaceStep(f, t, sl))
            out.append(ReplaceStep(f, t, Slice.empty, True))
            for m in marks:
                out.append(AddMarkStep(f, t, m))
                out.append(RemoveMarkStep(f, t, m))
            for w in wrappers:
                try:
                    frag = Fragment.from_(w.create(None))
                except Exception:  # noqa: BLE001
                    continue
                out.append(ReplaceAroundStep(f, t, f, t, Slice(frag, 0, 0), 1, True))
                if t - f >= 2:
                    out.append(ReplaceAroundStep(f, t, f + 1, t - 1, Slice(frag, 0, 0), 1, True))
                    out.append(ReplaceAroundStep(f, t, f + 1, t - 1, Slice.empty, 0, True))
        for m in marks:
            out.append(AddNodeMarkStep(f, m))
            out.append(RemoveNodeMarkStep(f, m))
        out.append(AttrStep(f, "level", 2))
    rng.shuffle(out)
    return out[:per_doc]


def build_jobs(tier, seed, stats, want_ops=True):
    thorough = tier == "thorough"
    rng = random.Random(seed)
    jobs = []
    # ---- exhaustive small scope: TLC-generated documents
    for sname, gb in (("s1t", universe.bounds(5 if not thorough else 6)),
                      ("s1", universe.bounds(4 if not thorough else 5, chars=(97,),
                                             marksets=((), (universe.EM,), (universe.LINK,)),
                                             attrs={"img": [{"src": "\"i\"", "alt": "null"}], "h": [{"level": "1"}]}))):
        sch, js, docs = universe.tlc_docs(sname, gb, stats)
        real = [proj.unproj(sch, d) for d in docs]
        cuts = all_cuts(sch, real)
        b = trace.Batch(js)
        per_doc = 60 if not thorough else 400
        if len(docs) > 400 and not thorough:
            idx = rng.sample(range(len(docs)), 400)
        else:
            idx = range(len(docs))
        for k in idx:
            d, rd = docs[k], real[k]
            di = b.doc(d)
            for st in small_scope_steps(sch, js, rd, cuts, rng, per_doc):
                steps.ev_apply(b, rd, di, st, tag="enum")
        if sname == "s1":
            # shaped documents beyond the token bound: textblocks that allow marks next to one that forbids them
            # (a raw mark step, e.g. one rebased over a concurrent insertion, may cover several blocks), all steps
            tx = lambda c, *ms: sch.text(c, [sch.marks[m].create() for m in ms])        # noqa: E731
            P = lambda *kids: sch.node("p", None, list(kids))                               # noqa: E731
            CB = lambda *kids: sch.node("cb", None, list(kids))                             # noqa: E731
            shaped = [sch.node("doc", None, ks) for ks in (
                [P(tx("a")), CB(tx("b"))], [P(tx("a")), CB(tx("b")), P(tx("c"))], [CB(tx("a")), P(tx("b"))],
                [sch.node("bq", None, [P(tx("a")), CB(tx("b"))]), P(tx("c", "em"))],
                [sch.node("h", {"level": 1}, [tx("a")]), CB(), P(tx("b"))])]
            for rd in shaped:
                d = proj.proj(rd)
                di = b.doc(d)
                for st in small_scope_steps(sch, js, rd, cuts, rng, 100000):
                    steps.ev_apply(b, rd, di, st, tag="shaped")
        stats.bounds[f"docs_{sname}"] = len(docs)
        jobs.append((b, f"G+T enum[{sname}]"))
    # ---- random: bundled schemas and variants
    n_docs = 25 if not thorough else 250
    for name in schemas.BUNDLED_PLUS + ["s1", "s3", "s4", "bm", "grid"]:
        sch, js, pairs = universe.random_docs(name, n_docs, rng)
        slices = []
        for toks, rd in pairs:
            n = rd.content.size
            for _ in range(3):
                f = rng.randint(0, n)
                t = rng.randint(f, n)
                try:
                    slices.append(rd.slice(f, t))
                except Exception:  # noqa: BLE001
                    pass
        sg = steps.StepGen(sch, js, rng, slices)
        og = ops.OpGen(sch, js, rng, slices, sg)
        b = trace.Batch(js)
        for toks, rd in pairs:
            di = b.doc(toks)
            for _ in range(10):
                st = sg.random_step(rd)
                steps.ev_apply(b, rd, di, st, tag="random")
                # the untrusted-peer path
                try:
                    st2 = steps.via_json(sch, st)
                except Exception as ex:  # noqa: BLE001
                    b.add({"ev": "Apply", "di": di, "step": steps.pstep(st), "ra": proj.pattrs(rd.attrs), "tag": "json",
                           "res": {"kind": "raise", "cls": type(ex).__name__, "valueerror": isinstance(ex, ValueError)}})
                    continue
                steps.ev_apply(b, rd, di, st2, tag="json")
            for _ in range(15):
                st = sg.around_with_flat_gap(rd)
                if st is not None:
                    steps.ev_apply(b, rd, di, st, tag="around")
            for _ in range(12 if name != "grid" else 40):
                st = sg.cross_sibling_delete(rd)
                if st is not None:
                    steps.ev_apply(b, rd, di, st, tag="crossDelete")
                    try:
                        steps.ev_apply(b, rd, di, steps.via_json(sch, st), tag="crossDelete-json")
                    except Exception:  # noqa: BLE001
                        pass
            for _ in range(12):
                st = sg.around_balanced_open_gap(rd)
                if st is not None:
                    steps.ev_apply(b, rd, di, st, tag="openGap")
            for _ in range(40):
                st = sg.around_wrap_extended(rd)
                if st is not None:
                    steps.ev_apply(b, rd, di, st, tag="wrapx")
            # typing / deleting / inserting an inline leaf inside text, also next to non-BMP characters
            from prosemirror.model import Fragment, Slice
            from prosemirror.transform import ReplaceStep
            texts = []
            rd.descendants(lambda node, pos, parent, index: texts.append((pos, node, parent)) if node.is_text else None)
            leaves = [t for t in sch.nodes.values() if t.is_inline and t.is_leaf and not t.is_text and not t.has_required_attrs()]
            for pos, node, parent in (texts if len(texts) <= 5 else rng.sample(texts, 5)):
                us = proj.units(node.text)

                def boundary():
                    off = rng.randint(0, len(us))
                    if 0 < off < len(us) and 0xDC00 <= us[off] < 0xE000:
                        off += 1          # not between the halves of a surrogate pair (known finding of C02)
                    return off
                for _ in range(4):
                    off = boundary()
                    kind = rng.choice(["type", "type", "delete", "leaf"])
                    if kind == "type":
                        ins = rng.choice(["x", "\U0001F600", "ab", "\U0001F601y"])
                        st = ReplaceStep(pos + off, pos + off, Slice(Fragment.from_(sch.text(ins, node.marks)), 0, 0))
                    elif kind == "delete":
                        off2 = boundary()
                        lo, hi = min(off, off2), max(off, off2)
                        st = ReplaceStep(pos + lo, pos + hi, Slice.empty)
                    elif leaves:
                        st = ReplaceStep(pos + off, pos + off, Slice(Fragment.from_(rng.choice(leaves).create()), 0, 0))
                    else:
                        continue
                    steps.ev_apply(b, rd, di, st, tag="typing")
            if want_ops:
                # steps emitted by high-level operations
                from prosemirror.transform import Transform
                for _ in range(4):
                    tr = Transform(rd)
                    name_, args, thunk = og.pick(tr)
                    ops.run_op(thunk)
                    for i, st in enumerate(tr.steps):
                        dprev = tr.docs[i]
                        dj = b.doc(proj.proj(dprev))
                        steps.ev_apply(b, dprev, dj, st, tag="op:" + name_)
        jobs.append((b, f"T random[{name}]"))
    # ---- T: every Step.apply the repository's own test-suite performs (tracer plug-in, no source change)
    from .. import suitetrace
    data, last = suitetrace.record()
    stats.notes.append(f"repository test-suite under the tracer: {last}")
    for bs in suitetrace.batches(data, {"Apply", "StepMap"}):
        jobs.append((bs, f"T testsuite[{bs.schema_js['name']}]"))
    return jobs


def describe_factory(b):
    def describe(e):
        d = b.docs[e["di"] - 1]
        st = dict(e["step"])
        sl = st.get("slice")
        stxt = {k: v for k, v in st.items() if k != "slice"}
        if sl:
            stxt["slice"] = f"{short(sl['toks'])}({sl['os']},{sl['oe']})"
        return {"api": "Step.apply" if e["ev"] == "Apply" else "Step.get_map", "schema": b.schema_js["name"],
                "event": e, "doc": d, "detail": f"{e['ev']} step={stxt} res={e['res']} doc={short(d)} tag={e.get('tag')}"}
    return describe


def collect(jobs, stats, evkind, out):
    vs = trace.validate_many([("Trace_Doc", b, what) for b, what in jobs], stats)
    for (b, what), verdicts in zip(jobs, vs):
        describe = describe_factory(b)
        for e in b.events:
            if e["ev"] != evkind:
                continue
            v = verdicts[e["id"]]
            stats.traces += 1
            stats.count("verdict:" + v)
            stats.count(f"{e['step']['type']}:{v.split(':')[0]}")
            if v.startswith("skip"):
                stats.skipped += 1
            elif v.startswith("drift"):
                stats.drift += 1
                if len(stats.drift_samples) < 6:
                    stats.drift_samples.append({"verdict": v, "detail": describe(e)["detail"][:400]})
            elif v.startswith("bad:"):
                rep = describe(e)
                sig = {"step": e["step"]["type"]}
                if e["res"].get("kind") == "raise":
                    sig["exc"] = e["res"]["cls"]
                out.append(Violation(v[4:], rep["api"], rep["detail"], rep, sig))
            stats.case({"ev": e["ev"], "step": {k: v2 for k, v2 in e["step"].items() if k != "slice"},
                        "doc": short(b.docs[e["di"] - 1]), "res": e["res"]["kind"]},
                       nontrivial=not v.startswith("skip"))


def run_mc_steps(tier, stats):
    thorough = tier == "thorough"
    sch, js = schemas.build("s1t")
    mb = universe.bounds(4 if not thorough else 5)
    path = tlc.write_input({"schema": js, "gen": mb}, "mc")
    r = tlc.run_tlc("MC_Steps", "MC_Steps.cfg", env={"PMV_INPUT": path}, timeout=3000)
    if not r.ok:
        raise core.MachineryError("MC_Steps: " + "; ".join(r.errors[:3]) + r.stdout[-2000:])
    stats.add_tlc(r, "M MC_Steps")


def run(tier: str, seed: int, t0: float) -> int:
    stats = Stats()
    out: list[Violation] = []
    run_mc_steps(tier, stats)
    jobs = build_jobs(tier, seed, stats)
    collect(jobs, stats, "Apply", out)
    for key, least in (("verdict:ok", 3000), ("replace:ok", 500), ("replaceAround:ok", 200), ("addMark:ok", 200),
                       ("removeMark:ok", 200), ("addNodeMark:ok", 50), ("removeNodeMark:ok", 50), ("attr:ok", 50),
                       ("docAttr:ok", 20)):
        if stats.counts.get(key, 0) < least:
            core.vacuity(out, f"vacuity gate: {key}={stats.counts.get(key, 0)} < {least}")
    return core.finish("C01", tier, seed, stats, out, t0,
                       rule="(document, step) pairs: TLC-generated small documents x enumerated steps of all types; random documents of "
                            "bundled schemas/variants x random steps (plausible-but-wrong included), each also decoded from JSON text; "
                            "steps emitted by random Transform operations; non-trivial = valid document, in-range positions, valid payload",
                       assumptions=["projection proj/unproj", "TLC/SANY, Json module",
                                    "ValueError family (ReplaceError, TransformError, UnicodeError) counts as reported failure"])


def replay(path: str) -> int:
    with open(path) as f:
        body = json.load(f)
    print(json.dumps(body["replay"])[:3000])
    return 0
