"""C03 - a step's position map describes exactly what the step did to the document.

M: spec/mc/MC_Steps.tla (FaithfulMaps over every small document and step).
G+T / T: the C01 driver's (document, step) pairs - including every step emitted by random
high-level Transform operations - with `get_map().ranges` recorded and judged by
Trace_Doc!VStepMap: size change = sum(new - old) and every old token outside the ranges is
found at the shifted index of the new document.
"""
from __future__ import annotations

from .. import core
from ..core import Stats, Violation
from . import c01


def run(tier: str, seed: int, t0: float) -> int:
    stats = Stats()
    out: list[Violation] = []
    c01.run_mc_steps(tier, stats)
    jobs = c01.build_jobs(tier, seed, stats)
    c01.collect(jobs, stats, "StepMap", out)
    for key, least in (("verdict:ok", 3000), ("replace:ok", 500), ("replaceAround:ok", 200), ("addMark:ok", 200)):
        if stats.counts.get(key, 0) < least:
            core.vacuity(out, f"vacuity gate: {key}={stats.counts.get(key, 0)} < {least}")
    return core.finish("C03", tier, seed, stats, out, t0,
                       rule="successfully applied (document, step) pairs with the reported map: TLC-generated small documents x enumerated "
                            "steps; random documents x random steps; every step emitted by random Transform operations; checked at every "
                            "token of the old document; non-trivial = step applied on a valid document",
                       assumptions=["for mark/attribute steps (empty map) 'unchanged' means the token skeleton (kind, type, code unit)",
                                    "projection proj/unproj", "TLC/SANY, Json module"])


replay = c01.replay
