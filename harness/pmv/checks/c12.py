"""C12 - structure helpers approve only edits that then succeed and keep content intact.

M: spec/mc/MC_Structure.tla - the closed forms of split / join / wrap preserve well-formedness and the
   leaf sequence, and join undoes split, over every small document.
G+T: on TLC-generated shape-bounded documents (lists, strict, isolating): every position x depth for
     can_split, every position for can_join / join_point (both directions), every position pair for
     lift_target / find_wrapping (all wrapper types), every position x node type for insert_point,
     positions x slices for drop_point; whenever a helper approves, the edit is performed;
T: the same on random bundled documents; generated schemas for the "performed edit" clause.
Judged by spec/trace/Trace_Ops.tla (VC12).
"""
from __future__ import annotations

import json
import random

from .. import core, gen, opdrive, proj, schemas, tlc, trace, universe
from ..core import Stats, Violation
from . import c11, c15

HELPERS = ["can_split", "can_join", "join_point", "lift_target", "find_wrapping", "insert_point", "drop_point"]


def doc_events(b, sch, rd, toks, rng, slices, total, n_pos, n_pairs):
    di = b.doc(toks)
    n = rd.content.size
    poss = list(range(n + 1))
    if len(poss) > n_pos:
        poss = rng.sample(poss, n_pos)
    types = [nt for nt in sch.nodes.values() if not nt.is_text and nt != sch.top_node_type]
    wrappers = [nt for nt in types if not nt.is_leaf]
    for p in poss:
        if c11.inside_surrogate(toks, p):
            continue
        for depth in (1, 2, 3):
            opdrive.ev_can_split(b, rd, di, p, depth, total)
        opdrive.ev_can_join(b, rd, di, p, total)
        opdrive.ev_join_point(b, rd, di, p, -1, total)
        opdrive.ev_join_point(b, rd, di, p, 1, total)
        for nt in rng.sample(types, min(len(types), 4)):
            opdrive.ev_insert_point(b, rd, di, p, nt, total)
        for sl in rng.sample(slices, min(len(slices), 2)):
            opdrive.ev_drop_point(b, rd, di, p, sl, total)
    pairs = [(f, t) for f in range(n + 1) for t in range(f, n + 1)]
    if len(pairs) > n_pairs:
        pairs = rng.sample(pairs, n_pairs)
    for f, t in pairs:
        if c11.inside_surrogate(toks, f) or c11.inside_surrogate(toks, t):
            continue
        opdrive.ev_lift_target(b, rd, di, f, t, total)
        for nt in rng.sample(wrappers, min(len(wrappers), 3)):
            opdrive.ev_find_wrapping(b, rd, di, f, t, nt, total)
    # split with explicit types after (first textblock type of the schema)
    tbs = [nt for nt in sch.nodes.values() if nt.is_textblock and not nt.has_required_attrs()]
    if tbs:
        from prosemirror.transform.structure import NodeTypeWithAttrs
        # (types after a split are meant for textblocks: "Enter at the end of a heading gives a paragraph")
        for p in poss:
            if c11.inside_surrogate(toks, p):
                continue
            try:
                rp = rd.resolve(p)
                if rp.parent.is_textblock:
                    opdrive.ev_can_split(b, rd, di, p, 1, total, [NodeTypeWithAttrs(rng.choice(tbs))])
                # deeper splits with one type per level, outermost first - the list an editor's "split list item" passes
                # ([list_item, paragraph]): the nodes' own types, and the same with another textblock type innermost
                for depth in (2, 3):
                    if rp.depth >= depth:
                        own = [NodeTypeWithAttrs(rp.node(rp.depth - depth + 1 + j).type, dict(rp.node(rp.depth - depth + 1 + j).attrs) or None)
                               for j in range(depth)]
                        opdrive.ev_can_split(b, rd, di, p, depth, total, own)
                        if rp.parent.is_textblock:
                            opdrive.ev_can_split(b, rd, di, p, depth, total, own[:-1] + [NodeTypeWithAttrs(rng.choice(tbs))])
            except Exception:  # noqa: BLE001
                pass


def run_mc(tier, stats):
    sch, js = schemas.build("s2")
    gb = universe.bounds(6 if tier == "quick" else 7, max_depth=4, max_run=2, chars=(97,), marksets=((), (universe.EM,)), max_kids=3,
                         attrs={"h": [{"level": "1"}], "ol": [{"order": "1"}]})
    path = tlc.write_input({"schema": js, "gen": gb}, "mcstruct")
    r = tlc.run_tlc("MC_Structure", "MC_Structure.cfg", env={"PMV_INPUT": path}, timeout=3000)
    if not r.ok:
        raise core.MachineryError("MC_Structure: " + "; ".join(r.errors[:3]) + r.stdout[-1500:])
    stats.add_tlc(r, "M MC_Structure")


def build_jobs(tier, seed, stats, rng):
    thorough = tier == "thorough"
    jobs = []
    for name, max_toks in (("s2", 10), ("s2s", 12), ("s3", 10)):
        sch, js, docs = c11.shape_universe(name, stats, rng, 150 if not thorough else 1500, max_toks)
        real = [proj.unproj(sch, d) for d in docs]
        slices = c11.slice_pool(real, rng, 2)
        b = trace.Batch(js)
        for d, rd in zip(docs, real):
            doc_events(b, sch, rd, d, rng, slices, True, 100, 100)
        jobs.append((b, f"G+T helpers[{name}]"))
    for name in schemas.BUNDLED_PLUS:
        sch2, js2, prs = universe.random_docs(name, 15 if not thorough else 200, rng, size=1.3)
        slices = c11.slice_pool([rd for _, rd in prs], rng, 3)
        b2 = trace.Batch(js2)
        for toks, rd in prs:
            doc_events(b2, sch2, rd, toks, rng, slices, True, 12, 10)
        jobs.append((b2, f"T helpers[{name}]"))
    # shaped documents: every position / pair of textblocks with several differently marked children next to code blocks
    schS, jsS, prsS = universe.shaped_test_docs()
    bS = trace.Batch(jsS)
    slS = c11.slice_pool([rd for _, rd in prsS], rng, 4)
    for toks, rd in prsS:
        doc_events(bS, schS, rd, toks, rng, slS, True, 1000, 60)
    jobs.append((bS, "T helpers[shaped test]"))
    for name, spec in (("s5", c15.S5), ("struct", c15.STRUCT)):
        from prosemirror.model import Schema
        sch3 = Schema(spec)
        js3 = schemas.export(schemas._strip(spec), name)
        g = gen.DocGen(js3, rng)
        prs = []
        for _ in range(12 if not thorough else 120):
            try:
                rd = proj.unproj(sch3, g.doc())
                prs.append((proj.proj(rd), rd))
            except Exception:  # noqa: BLE001
                continue
        slices = c11.slice_pool([rd for _, rd in prs], rng, 3)
        b3 = trace.Batch(js3)
        for toks, rd in prs:
            doc_events(b3, sch3, rd, toks, rng, slices, False, 10, 8)
        jobs.append((b3, f"T helpers[generated {name}]"))
    return jobs


def run(tier: str, seed: int, t0: float) -> int:
    stats = Stats()
    out: list[Violation] = []
    rng = random.Random(seed)
    run_mc(tier, stats)
    jobs = build_jobs(tier, seed, stats, rng)
    c11.collect(jobs, "C12", stats, out, api_prefix="structure.")
    approved = {}
    for bb, _ in jobs:
        for e in bb.events:
            if e["ev"] == "Helper" and e.get("approved"):
                approved[e["helper"]] = approved.get(e["helper"], 0) + 1
    stats.counts.update({f"approved:{k}": v for k, v in approved.items()})
    for h in HELPERS:
        if approved.get(h, 0) < 20:
            core.vacuity(out, f"vacuity gate: approved:{h}={approved.get(h, 0)} < 20")
    return core.finish("C12", tier, seed, stats, out, t0,
                       rule="(document, helper arguments): every position x depth (can_split), position (can_join, join_point both directions), position pair "
                            "(lift_target, find_wrapping x wrapper types), position x node type (insert_point), position x slice (drop_point) on TLC-generated "
                            "shape-bounded documents and random bundled documents; whenever a helper approves, the edit is performed and judged; "
                            "non-trivial = inside the quantifier",
                       assumptions=["insert_point is judged by a plain ReplaceStep of a filled node at the returned position; drop_point by Transform.replace of the slice",
                                    "closed forms of split/join/wrap are drift-level references", "projection", "TLC/SANY, Json module"])


def replay(path: str) -> int:
    with open(path) as f:
        body = json.load(f)
    print(json.dumps(body["replay"])[:3000])
    return 0
