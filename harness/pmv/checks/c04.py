"""C04 - every recorded change can be undone exactly and replayed exactly.

M: spec/mc/MC_Transform.tla - alignment, exact replay, exact undo, append-only on every history of
   the specification's editing machine (exhaustive to a small depth + simulation), and
   MC_Steps (ExactUndo, InverseMaps per single step).
C: spec/PMCollab.tla + spec/mc/MC_Collab.tla - the collaborative-editing protocol (authority log, clients rebasing
   their unconfirmed steps with mapping mirrors) as a state machine: model-checked, its behaviours replayed through a
   port of the protocol over the library, and random runs on the bundled schemas; every protocol action is an event
   for spec/trace/Trace_Collab.tla (exact undo + exact replay over whole concurrent histories).
T: random Transform sessions over the whole API on the bundled schemas and variants; the
   accumulator is observed after every call (also after rejected operations) and validated by
   spec/trace/Trace_Transform.tla.  Single steps: Trace_Doc!VInvert.
"""
from __future__ import annotations

import json
import random

from .. import collab, core, ops, proj, schemas, sessions, steps, tlc, trace, universe
from ..core import Stats, Violation
from . import c01
from .c02 import short


def invert_events(b, doc, di, step):
    """Single-step inverse law (any schema)."""
    res, d2 = steps.apply_outcome(step, doc)
    if d2 is None:
        return
    ev = {"ev": "Invert", "di": di, "step": steps.pstep(step), "ra": proj.pattrs(doc.attrs), "res": res,
          "out": proj.proj(d2), "outra": proj.pattrs(d2.attrs), "map": steps.map_ranges(step)}
    try:
        inv = step.invert(doc)
        ev["inv"] = steps.pstep(inv)
        ev["invmap"] = steps.map_ranges(inv)
        r2, d3 = steps.apply_outcome(inv, d2)
        ev["back"] = r2
        if d3 is not None:
            ev["backdoc"] = proj.proj(d3)
            ev["backra"] = proj.pattrs(d3.attrs)
        else:
            ev["backdoc"] = []
            ev["backra"] = {}
    except Exception as ex:  # noqa: BLE001
        ev["inv"] = {"type": "none"}
        ev["invmap"] = []
        ev["back"] = {"kind": "raise", "cls": type(ex).__name__, "valueerror": isinstance(ex, ValueError)}
        ev["backdoc"] = []
        ev["backra"] = {}
    b.add(ev)


def gen_norm(toks):
    from .. import gen
    return gen.norm_tokens(toks)


def norm_step(st):
    """A step printed by TLC (ToJson) -> harness form (empty attribute records come out as [])."""
    st = dict(st)
    if "slice" in st:
        sl = dict(st["slice"])
        sl["toks"] = gen_norm(sl["toks"])
        st["slice"] = sl
    return st


def run(tier: str, seed: int, t0: float) -> int:
    stats = Stats()
    out: list[Violation] = []
    thorough = tier == "thorough"
    rng = random.Random(seed)
    # ---- M
    c01.run_mc_steps(tier, stats)
    sch, js, docs = universe.tlc_docs("s1t", universe.bounds(3 if not thorough else 4), stats)
    path = tlc.write_input({"schema": js, "starts": docs, "maxSteps": 2, "marks": [universe.EM], "maxToks": 6}, "mctr")
    r = tlc.run_tlc("MC_Transform", "MC_Transform.cfg", env={"PMV_INPUT": path}, timeout=3000)
    if not r.ok:
        raise core.MachineryError("MC_Transform: " + "; ".join(r.errors[:3]) + r.stdout[-1500:])
    stats.add_tlc(r, "M MC_Transform depth 2")
    path = tlc.write_input({"schema": js, "starts": docs, "maxSteps": 10, "marks": [universe.EM], "maxToks": 8}, "mctr")
    r = tlc.run_tlc("MC_Transform", "MC_Transform.cfg", env={"PMV_INPUT": path}, timeout=3000,
                    simulate=f"num={3 if not thorough else 100}", depth=12, seed=seed)
    if r.errors:
        raise core.MachineryError("MC_Transform simulate: " + "; ".join(r.errors[:3]) + r.stdout[-1500:])
    stats.add_tlc(r, "M MC_Transform simulate")
    # ---- G: behaviours of the editing machine (tlc -simulate) replayed into Transform, step by step; the
    # specification's documents and maps are compared after every step (reference) and the library's own
    # session is observed for the contract (Trace_Transform)
    jobs = []
    tid = 0
    path = tlc.write_input({"schema": js, "starts": docs, "maxSteps": 6, "marks": [universe.EM], "maxToks": 9}, "gentr")
    r = tlc.run_tlc("MC_Transform", "Gen_Transform.cfg", env={"PMV_INPUT": path}, workers=1, heap="4g", timeout=3000,
                    simulate=f"num={2 if not thorough else 60}", depth=7, seed=seed)
    if r.errors or not r.printed:
        raise core.MachineryError("Gen_Transform: " + "; ".join(r.errors[:3]) + r.stdout[-1500:])
    stats.add_tlc(r, "G Gen_Transform simulate")
    from prosemirror.transform import Transform as _Tr
    bg = trace.Batch(js)
    seen_h = set()
    g_mismatch = 0
    for e in r.printed:
        key = json.dumps([e["start"], e["steps"]], sort_keys=True)
        if key in seen_h:
            continue
        seen_h.add(key)
        tid += 1
        start = proj.unproj(sch, gen_norm(e["start"]))
        tr = _Tr(start)
        bg.add({"ev": "Begin", "tid": tid, "seq": 0, "doc": bg.doc(proj.proj(start)), "ra": proj.pattrs(start.attrs)})
        for k, st in enumerate(e["steps"]):
            res = ops.run_op(lambda st=st: tr.step(steps.mkstep(sch, norm_step(st))))
            sessions.observe(bg, tr, tid, k + 1, "step", {"step": {k2: v2 for k2, v2 in st.items() if k2 != "slice"}}, res)
            got = proj.proj(tr.doc)
            if got != gen_norm(e["docs"][k + 1]) or (len(tr.mapping.maps) == k + 1 and
                                                    [list(tr.mapping.maps[k].ranges[i:i + 3]) for i in range(0, len(tr.mapping.maps[k].ranges), 3)] != [list(x) for x in e["maps"][k]]):
                g_mismatch += 1
                stats.drift += 1
                if len(stats.drift_samples) < 6:
                    stats.drift_samples.append({"verdict": "drift:SpecBehaviour", "op": "step", "args": json.dumps(st)[:300]})
                break
    stats.bounds["spec_behaviours_replayed"] = len(seen_h)
    stats.bounds["spec_behaviour_mismatches"] = g_mismatch
    jobs.append(("Trace_Transform", bg, "G+T spec behaviours[s1t]"))
    # ---- T sessions
    n_docs = 30 if not thorough else 300
    for name in schemas.BUNDLED_PLUS:
        sch, js, pairs = universe.random_docs(name, n_docs, rng)
        slices = []
        for toks, rd in pairs:
            n = rd.content.size
            for _ in range(3):
                f = rng.randint(0, n)
                t = rng.randint(f, n)
                try:
                    slices.append(rd.slice(f, t))
                except Exception:  # noqa: BLE001
                    pass
        sg = steps.StepGen(sch, js, rng, slices)
        og = ops.OpGen(sch, js, rng, slices, sg)
        b = trace.Batch(js)
        for toks, rd in pairs:
            tid += 1
            sessions.run_session(b, og, rd, tid, rng.randint(1, 8))
        jobs.append(("Trace_Transform", b, f"T sessions[{name}]"))
    # ---- G+T: exhaustive small scope, one mark operation per session: every TLC-generated document with
    # differently attributed links next to each other x every range x add/remove of excluding marks
    from prosemirror.transform import Transform
    LU = {"t": "link", "a": "{\"href\":\"u\"}"}
    LV = {"t": "link", "a": "{\"href\":\"v\"}"}
    gbm = universe.bounds(4 if not thorough else 5, max_run=1, marksets=((), (universe.EM,), (LU,), (LV,), (LU, universe.EM)))
    schm, jsm, mdocs = universe.tlc_docs("s1t", gbm, stats)
    bm = trace.Batch(jsm)
    marks_m = [schm.marks["em"].create(), schm.marks["link"].create({"href": "w"}), schm.marks["link"].create({"href": "u"})]
    sel_m = mdocs if thorough or len(mdocs) <= 250 else rng.sample(mdocs, 250)
    for d in sel_m:
        rd = proj.unproj(schm, d)
        n = rd.content.size
        for f in range(n + 1):
            for t in range(f + 1, n + 1):
                for m in marks_m:
                    for which in ("add", "remove"):
                        tid += 1
                        tr = Transform(rd)
                        bm.add({"ev": "Begin", "tid": tid, "seq": 0, "doc": bm.doc(d), "ra": proj.pattrs(rd.attrs)})
                        res = ops.run_op((lambda: tr.add_mark(f, t, m)) if which == "add" else (lambda: tr.remove_mark(f, t, m)))
                        sessions.observe(bm, tr, tid, 1, which + "_mark", {"from": f, "to": t, "mark": proj.pmark(m)}, res)
    # shaped documents beyond the token bound: marked text on both sides of an inline leaf that is not marked (or marked
    # differently), two such runs, a leaf at either end - every range x add / remove (instance, type, all)
    emk, lu, lv = marks_m[0], marks_m[2], schm.marks["link"].create({"href": "v"})
    T_ = lambda c, *ms: schm.text(c, list(ms))                                   # noqa: E731
    brn = schm.nodes["br"].create()
    P_ = lambda *k: schm.nodes["p"].create(None, list(k))                        # noqa: E731
    shaped_m = [[P_(T_("a", emk), brn, T_("b", emk))], [P_(T_("a", lu), brn, T_("b", lu), T_("c"))], [P_(brn, T_("a", emk), brn.mark([emk]), T_("b", emk), brn)],
                [P_(T_("a", emk, lu), brn.mark([lu]), T_("b", emk, lv))], [P_(T_("a", emk), brn), P_(brn, T_("b", emk))], [P_(T_("a", lu), brn, T_("b", lv), brn, T_("c", lu))]]
    for kids in shaped_m:
        rd = schm.nodes["doc"].create(None, kids)
        d = proj.proj(rd)
        n = rd.content.size
        for f in range(n + 1):
            for t in range(f + 1, n + 1):
                variants = [("add_mark", m, (lambda m=m: lambda tr: tr.add_mark(f, t, m))()) for m in marks_m]
                variants += [("remove_mark", m, (lambda m=m: lambda tr: tr.remove_mark(f, t, m))()) for m in marks_m + [lv]]
                variants += [("remove_mark_type", None, lambda tr: tr.remove_mark(f, t, schm.marks["em"])),
                             ("remove_mark_type", None, lambda tr: tr.remove_mark(f, t, schm.marks["link"])),
                             ("remove_mark_all", None, lambda tr: tr.remove_mark(f, t, None))]
                for opn, m, fn in variants:
                    tid += 1
                    tr = Transform(rd)
                    bm.add({"ev": "Begin", "tid": tid, "seq": 0, "doc": bm.doc(d), "ra": proj.pattrs(rd.attrs)})
                    res = ops.run_op(lambda: fn(tr))
                    args = {"from": f, "to": t}
                    if m is not None:
                        args["mark"] = proj.pmark(m)
                    sessions.observe(bm, tr, tid, 1, opn, args, res)
    jobs.append(("Trace_Transform", bm, "G+T mark histories[s1t]"))
    # ---- T single-step inverse under every schema
    for name in schemas.BUNDLED_PLUS + ["s1", "s3", "s4"]:
        sch, js, pairs = universe.random_docs(name, n_docs, rng)
        slices = []
        for toks, rd in pairs:
            n = rd.content.size
            for _ in range(3):
                f = rng.randint(0, n)
                t = rng.randint(f, n)
                try:
                    slices.append(rd.slice(f, t))
                except Exception:  # noqa: BLE001
                    pass
        sg = steps.StepGen(sch, js, rng, slices)
        b = trace.Batch(js)
        for toks, rd in pairs:
            di = b.doc(toks)
            for _ in range(25):
                st = sg.random_step(rd)
                if steps.pstep(st)["type"] in ("addMark", "removeMark"):
                    continue
                if steps.pstep(st)["type"] == "attr" and st.attr == "undeclared":
                    continue
                invert_events(b, rd, di, st)
            # node-mark steps naming a mark of the same type as one the node carries, with other attribute values
            from prosemirror.transform import AddNodeMarkStep, RemoveNodeMarkStep
            marked = []
            rd.descendants(lambda node, pos, parent, index: marked.append((pos, node)) if (node.marks and not node.is_text) else None)
            for pos, node in marked[:6]:
                for m in node.marks:
                    if m.attrs:
                        other = m.type.create({k: (v + "2" if isinstance(v, str) else v) for k, v in m.attrs.items()})
                        if other.attrs != m.attrs:
                            invert_events(b, rd, di, RemoveNodeMarkStep(pos, other))
                            invert_events(b, rd, di, AddNodeMarkStep(pos, other))
        jobs.append(("Trace_Doc", b, f"T invert[{name}]"))
    # ---- T: the Transform operations of the repository's own test-suite, each as a one-operation session
    from .. import suitetrace
    sjobs, note = suitetrace.sessions_of_calls()
    stats.notes.append(note)
    for sb, swhat in sjobs:
        jobs.append(("Trace_Transform", sb, swhat))
    vs = trace.validate_many(jobs, stats)
    for (mod, b, what), verdicts in zip(jobs, vs):
        for e in b.events:
            v = verdicts[e["id"]]
            if e["ev"] == "Begin":
                continue
            stats.traces += 1
            kind = e.get("op") or e["step"]["type"]
            stats.count(f"{e['ev']}:{kind}:{v.split(':')[0]}")
            stats.count(f"verdict:{v}")
            if v.startswith("skip"):
                stats.skipped += 1
            elif v.startswith("drift"):
                stats.drift += 1
                if len(stats.drift_samples) < 6:
                    stats.drift_samples.append({"verdict": v, "op": kind, "args": str(e.get("args", e.get("step")))[:300]})
            if e["ev"] == "Op":
                case = {"op": e["op"], "args": {k2: (short(v2["toks"]) if isinstance(v2, dict) and "toks" in v2 else v2) for k2, v2 in e["args"].items() if k2 != "node"},
                        "res": e["res"]["kind"], "nsteps": len(e["steps"]), "doc": short(b.docs[e["doc"] - 1])}
            else:
                case = {"step": {k2: v2 for k2, v2 in e["step"].items() if k2 != "slice"}, "doc": short(b.docs[e["di"] - 1])}
            stats.case(case, nontrivial=not v.startswith("skip") and (e["ev"] != "Op" or len(e["steps"]) > 0))
            if v.startswith("bad:"):
                sig = {"op": kind}
                if e["ev"] == "Op" and e["undo"]["kind"] == "raise":
                    sig["undo_exc"] = e["undo"]["cls"]
                api = "Transform." + e["op"] if e["ev"] == "Op" else "Step.invert"
                out.append(Violation(v[4:], api, f"{what}: {json.dumps(case)[:500]}",
                                     {"schema": b.schema_js["name"], "event": {k2: v2 for k2, v2 in e.items() if k2 not in ("docs", "replay")},
                                      "start_doc": b.docs[(e["docs"][0] if e.get("docs") else e.get("doc", e.get("di"))) - 1]}, sig))
    # ---- C: collaborative histories
    collab.stage(tier, seed, rng, stats, out)
    need = [("verdict:ok", 500)]
    for op in ("replace", "delete", "insert", "replace_range", "delete_range", "add_mark", "remove_mark", "split", "join", "lift", "wrap",
               "set_block_type", "set_node_markup", "add_node_mark"):
        need.append((f"Op:{op}:ok", 3))
    for st, least in (("replace", 50), ("addNodeMark", 3), ("removeNodeMark", 3), ("attr", 10), ("docAttr", 5)):
        need.append((f"Invert:{st}:ok", least))
    for key, least in need:
        if stats.counts.get(key, 0) < least:
            core.vacuity(out, f"vacuity gate: {key}={stats.counts.get(key, 0)} < {least}")
    return core.finish("C04", tier, seed, stats, out, t0,
                       rule="Transform sessions of 1-8 random operations over the whole API (replace family, marks, split/join/lift/wrap, block type, "
                            "markup, attributes, node marks) from random valid documents of the bundled schemas and variants, observed after every call; "
                            "single replace/replace-around/attr/doc-attr/node-mark steps under nine schemas; collaborative runs (2-3 clients, authority log, "
                            "rebasing with mirrors): all interleavings of a small model, simulated behaviours replayed into the library, random runs with the "
                            "steps of real Transform operations; non-trivial = at least one recorded step / a receive that rebases",
                       assumptions=["spec-level replay/undo differences are drift; the contract is judged on the library's own apply/invert chain",
                                    "projection proj/unproj", "TLC/SANY, Json module"])


def replay(path: str) -> int:
    with open(path) as f:
        body = json.load(f)
    print(json.dumps(body["replay"])[:3000])
    return 0
