"""C06 - a content expression and its compiled matcher accept exactly the same sequences.

Pipeline E (spec/mc/MC_ContentProduct.tla): the compiled ContentMatch graph of every expression
is dumped through the public API and TLC explores its product with the derivative automaton
of the specification - language equality and alive-state equality for sequences of any length.
Expressions: every syntax tree up to a size bound (enumerated by TLC, MC_ExprGen), random larger
ones, the expressions of the bundled schemas, and malformed strings (all token strings up to a
length bound + mutations) for the rejection rules.
"""
from __future__ import annotations

import itertools
import json
import random

from .. import core, exprparse, schemas, tlc
from ..core import Stats, Violation

ALPHA_SPEC = {
    "doc": {"content": "a*"},
    "a": {"group": "g blk", "attrs": {"id": {"default": None}}},     # generatable: its only attribute defaults to None
    "b": {"group": "g blk", "content": "a*"},
    "c": {"group": "blk", "attrs": {"opt": {"default": 0}, "req": {}}},          # not generatable (the required attribute is not the first)
    "text": {"group": "inl"},
    "i": {"inline": True, "group": "inl"},
    "r": {"inline": True, "group": "inl ng", "attrs": {"opt": {"default": None}, "req": {}}},   # inline, not generatable
}
ALPHABET = ["a", "b", "c", "text", "i", "r"]


def dump_auto(cm):
    """The compiled automaton reachable from `cm`, through edge_count / edge / valid_end."""
    states = [cm]
    idx = {id(cm): 1}
    out = []
    k = 0
    while k < len(states):
        st = states[k]
        edges = []
        for i in range(st.edge_count):
            e = st.edge(i)
            if id(e.next) not in idx:
                states.append(e.next)
                idx[id(e.next)] = len(states)
            edges.append({"t": e.type.name, "to": idx[id(e.next)]})
        out.append({"ve": bool(st.valid_end), "edges": edges})
        k += 1
    return out


def record(src: str, alpha_spec=ALPHA_SPEC):
    from prosemirror.model import Schema
    rec = {"src": src, "chars": exprparse.chars(src), "parsed": False, "ast": exprparse.parse(""), "built": False, "exc": "", "auto": [], "inline": False}
    try:
        rec["ast"] = exprparse.parse(src)
        rec["parsed"] = True
    except exprparse.ExprSyntaxError:
        pass
    except Exception:  # noqa: BLE001 - e.g. int() overflow on silly numbers
        pass
    nodes = dict(alpha_spec)
    nodes["n"] = {"content": src}
    try:
        s = Schema({"nodes": nodes})
        cm = s.nodes["n"].content_match
        rec["auto"] = dump_auto(cm)
        rec["inline"] = bool(cm.inline_content)
        rec["built"] = True
    except Exception as ex:  # noqa: BLE001
        rec["exc"] = type(ex).__name__
    return rec


def random_expr(rng, atoms, depth=0):
    r = rng.random()
    if depth > 3 or r < 0.3:
        return exprparse._n("name", ref=rng.choice(atoms))
    if r < 0.5:
        return exprparse._n(rng.choice(["star", "plus", "opt"]), args=[random_expr(rng, atoms, depth + 1)])
    if r < 0.62:
        lo = rng.randint(0, 3)
        hi = rng.choice([lo, -1, lo + rng.randint(0, 2)])
        if hi == 0 and lo == 0:
            hi = 1
        return exprparse._n("range", args=[random_expr(rng, atoms, depth + 1)], lo=lo, hi=hi)
    n = rng.choice([2, 2, 3])
    return exprparse._n(rng.choice(["seq", "choice"]), args=[random_expr(rng, atoms, depth + 1) for _ in range(n)])


def cost(e):
    """Rough size of the expression's automaton (random expressions are capped by it)."""
    op = e["op"]
    if op == "name":
        return 1
    if op in ("seq", "choice"):
        return sum(cost(a) for a in e["args"])
    if op == "range":
        return cost(e["args"][0]) * max(1, e["min"], e["max"], e["min"] + 1)
    return cost(e["args"][0]) + 1


TOKENS = ["a", "c", "g", "i", "(", ")", "|", "+", "*", "?", "{", "}", ",", "1", "2", "zz"]


def malformed_strings(rng, thorough):
    out = []
    L = 4 if thorough else 3
    for n in range(1, L + 1):
        for combo in itertools.product(TOKENS, repeat=n):
            out.append(" ".join(combo))
    if not thorough:
        # sample of length-4 strings
        for _ in range(3000):
            out.append(" ".join(rng.choice(TOKENS) for _ in range(4)))
    for _ in range(2000 if not thorough else 20000):
        out.append(" ".join(rng.choice(TOKENS) for _ in range(rng.randint(5, 7))))
    # dead ends, mixing, unknown names, unclosed things
    out += ["c", "c a", "a c", "c+", "c*", "c?", "(c | r)", "c{2}", "a c?", "(a | c) c", "r", "r+", "text", "text+", "text*",
            "a text", "a | i", "i a", "(a", "a)", "a{", "a{1", "a{1,", "a{,2}", "a{1,2", "a |", "| a", "a ||", "zz", "a zz*", "()", "a{2,1}",
            "blk", "blk+", "g c", "ng", "ng*", "inl", "inl+ a", "(a b){2} c", "a{0}", "a{0,0}", "a{0,}", "(a*)*", "(a?)+", "(a* b*)*",
            # range bounds of two digits (a 12-column grid)
            "a{12}", "a{2,10}", "b{10,}", "(a b){10,11} c", "a{010}", "a{1 2}"]
    return out


def run_batch(recs, alpha_js, alphabet, stats, what):
    """Product exploration of a batch; returns list of (index, invariant) violations."""
    shards = []
    nsh = max(1, min(64, len(recs) // 100))
    for k in range(nsh):
        part = recs[k::nsh]          # interleaved: expensive expressions are spread over the shards
        words = exprparse.words_table([rc["src"] for rc in part], alphabet)
        shards.append((k, {"PMV_INPUT": tlc.write_input({"schema": alpha_js, "alphabet": alphabet, "exprs": part, "words": words}, "prod")}))
    from concurrent.futures import ThreadPoolExecutor

    def one(sh):
        return tlc.run_tlc("MC_ContentProduct", "MC_ContentProduct.cfg", env=sh[1], workers=1, heap="3g", extra=["-continue"])
    with ThreadPoolExecutor(max_workers=16) as ex:
        results = list(ex.map(one, shards))
    bad = []
    import re
    stats.notes.append(what + " shard walls: " + " ".join(f"{r.wall_s:.0f}" for r in results))
    for (base, _), r in zip(shards, results):
        stats.add_tlc(r, what)
        finished = "states generated" in r.stdout and not r.timed_out
        if not finished:
            raise core.MachineryError("MC_ContentProduct did not finish: " + "; ".join(r.errors[:3]) + r.stdout[-1500:])
        # with -continue every violated invariant is reported with its trace; collect (k, invariant, word)
        for m in re.finditer(r"Error: Invariant (\w+) is violated(?: by the initial state)?[.:](.*?)(?=Error: Invariant|\Z)", r.stdout, re.S):
            inv, body = m.group(1), m.group(2)
            ks = re.findall(r"/\\ k = (\d+)", body)
            ws = re.findall(r"/\\ w = (<<.*?>>)", body)
            if not ks:
                raise core.MachineryError(f"MC_ContentProduct: violation of {inv} without a readable state:\n" + body[:600])
            if ks and inv == "ParsersAgree":
                raise core.MachineryError("the harness' parser and the specification's recogniser (PMExprSyntax) disagree on "
                                          + repr(recs[base + (int(ks[-1]) - 1) * nsh]["src"]))
            if ks:
                bad.append((base + (int(ks[-1]) - 1) * nsh, inv, ws[-1] if ws else ""))
        # every reported invariant violation must have been understood (TLC words them differently for initial
        # states and for later states - a pattern that misses one of the forms would silently pass)
        n_reported = len(re.findall(r"^Error: Invariant \w+ is violated", r.stdout, re.M))
        n_parsed = len(re.findall(r"Error: Invariant (\w+) is violated(?: by the initial state)?[.:]", r.stdout))
        if n_reported != n_parsed:
            raise core.MachineryError(f"MC_ContentProduct: {n_reported} invariant violations reported, {n_parsed} understood")
        other = [e for e in r.errors if "Invariant" not in e and "behavior up to this point" not in e]
        if other:
            raise core.MachineryError("MC_ContentProduct: " + "; ".join(other[:3]) + r.stdout[-1500:])
    return bad


def run(tier: str, seed: int, t0: float) -> int:
    stats = Stats()
    out: list[Violation] = []
    thorough = tier == "thorough"
    rng = random.Random(seed)
    alpha_js = schemas.export({"nodes": ALPHA_SPEC}, "alpha")
    # ---- (i) TLC enumerates all syntax trees up to a size bound
    size = 4 if not thorough else 5
    srcs = []
    for atoms, sz in ((["a", "b", "g"], size), (["a", "c", "i"], min(size, 3)), (["a", "c"], size)):
        path = tlc.write_input({"schema": alpha_js, "atoms": atoms, "ranges": [[2, 2], [1, -1], [0, 2], [1, 3]], "maxSize": sz,
                                "words": exprparse.words_table(atoms)}, "exprgen")
        r = tlc.run_tlc("MC_ExprGen", "MC_ExprGen.cfg", env={"PMV_INPUT": path}, workers=1, heap="4g")
        if not r.ok:
            raise core.MachineryError("MC_ExprGen: " + "; ".join(r.errors[:3]) + r.stdout[-1500:])
        stats.add_tlc(r, "G MC_ExprGen")
        for ast in r.printed:
            ast = norm_ast(ast)
            src = exprparse.render(ast)
            # self-check of the independent parser: print/parse round trip preserves the rendering
            if exprparse.render(exprparse.parse(src)) != src:
                raise core.MachineryError(f"expression print/parse round trip failed for {src!r}")
            srcs.append(src)
    stats.bounds["enumerated_exprs"] = len(srcs)
    # ---- (ii) random larger expressions
    want = 1500 if not thorough else 20000
    while want:
        e = random_expr(rng, rng.choice([["a", "b", "g", "blk"], ["text", "i", "inl"], ["a", "c", "b"], ["a", "i", "c", "r"]]))
        if cost(e) <= 14:
            srcs.append(exprparse.render(e))
            want -= 1
    # ---- (iv) malformed strings
    mal = malformed_strings(rng, thorough)
    stats.bounds["malformed_candidates"] = len(mal)
    seen = set()
    recs = []
    for s in srcs + mal:
        if s in seen:
            continue
        seen.add(s)
        rc = record(s)
        if rc["parsed"] and inverted_range(rc["ast"]):
            stats.skipped += 1          # {n,m} with m < n: outside the property's expression language
            continue
        recs.append(rc)
    import time as _t
    stats.notes.append(f"records built at {_t.time() - t0:.1f}s")
    bad = run_batch(recs, alpha_js, ALPHABET, stats, "E MC_ContentProduct[alpha]")
    stats.notes.append(f"alpha product done at {_t.time() - t0:.1f}s")
    for idx, inv, word in bad:
        rc = recs[idx]
        out.append(Violation(inv, "ContentMatch.parse", f"expr {rc['src']!r} built={rc['built']} exc={rc['exc']} word={word}",
                             {"expr": rc["src"], "alphabet": "alpha", "word": word, "built": rc["built"], "exc": rc["exc"]},
                             {"built": rc["built"]}))
    for rc in recs:
        stats.case({"expr": rc["src"], "built": rc["built"], "parsed": rc["parsed"]}, nontrivial=True)
        stats.count("built" if rc["built"] else "rejected")
        stats.count("parsed" if rc["parsed"] else "syntax_error")
    stats.traces += len(recs)
    # ---- (iii) expressions of the bundled schemas and variants, over their own alphabets
    for name in schemas.BUNDLED_PLUS + ["s1", "s3"]:
        spec = schemas._strip(schemas.spec_of(name))
        js = schemas.export(spec, name)
        alpha = {n: {k: v for k, v in ns.items()} for n, ns in spec["nodes"].items()}
        recs2 = []
        for n, ns in spec["nodes"].items():
            recs2.append(record(ns.get("content", "") or "", alpha))
        bad = run_batch(recs2, js, list(spec["nodes"]), stats, f"E MC_ContentProduct[{name}]")
        for idx, inv, word in bad:
            rc = recs2[idx]
            out.append(Violation(inv, "ContentMatch.parse", f"schema {name} expr {rc['src']!r} built={rc['built']} word={word}",
                                 {"expr": rc["src"], "alphabet": name, "word": word}, {"built": rc["built"]}))
        stats.traces += len(recs2)
        stats.count("bundled_exprs", len(recs2))
    for key, least in (("built", 1000), ("rejected", 500), ("syntax_error", 300)):
        if stats.counts.get(key, 0) < least:
            core.vacuity(out, f"vacuity gate: {key}={stats.counts.get(key, 0)} < {least}")
    stats.exhaustive = True
    stats.tlc_cmds = stats.tlc_cmds[:8] + [f"... {max(0, len(stats.tlc_cmds) - 8)} more runs"]
    return core.finish("C06", tier, seed, stats, out, t0,
                       rule="content expressions: every syntax tree up to the size bound over three atom sets (TLC-enumerated), random "
                            "larger ones, all token strings up to length 3/4 over 16 tokens plus random longer strings and hand-made "
                            "malformed ones, expressions of bundled schemas; each decided by product exploration (unbounded sequences)",
                       assumptions=["expression strings are ASCII; the word -> name table handed to the recogniser PMExprSyntax is a pure encoding (lexing and "
                                    "parsing are done in TLA+; the harness' own parser is cross-checked against it on every string: ParsersAgree)",
                                    "{n,m} with m < n is outside the property's expression language (skipped, counted)",
                                    "TLC/SANY, Json module"])


def inverted_range(a):
    if a["op"] == "range" and a["max"] != -1 and a["max"] < a["min"]:
        return True
    return any(inverted_range(x) for x in a["args"])


def norm_ast(a):
    """ToJson prints empty sequences as [] already; make sure args lists are lists."""
    a = dict(a)
    a["args"] = [norm_ast(x) for x in a.get("args", [])]
    return a


def replay(path: str) -> int:
    with open(path) as f:
        body = json.load(f)
    print(json.dumps(body["replay"])[:3000])
    return 0
