"""C09 - positions resolve, index and traverse consistently, counting UTF-16 units.

M: spec/mc/MC_Resolve.tla - consistency theorems of the resolved-position operators.
G+T: every position and position pair of every TLC-generated document (text with a non-inclusive
     mark); T: random bundled documents with non-BMP text and nested marks, all positions, sampled
     pairs.  Judged by spec/trace/Trace_Resolve.tla: every accessor compared with its operator.
"""
from __future__ import annotations

import json
import random

from .. import core, proj, schemas, tlc, trace, universe
from ..core import Stats, Violation
from .c02 import short


def _opt_node(n):
    if n is None:
        return {"none": True, "toks": []}
    return {"none": False, "toks": proj.proj_node(n)}


def ev_resolve(b, doc, di, p):
    ev = {"ev": "Resolve", "di": di, "pos": p}
    try:
        r = doc.resolve(p)
        ev["depth"] = r.depth
        path = []
        for k in range(r.depth + 1):
            node = r.node(k)
            entry = {"type": node.type.name, "start": r.start(k), "end": r.end(k), "index": r.index(k),
                     "indexAfter": r.index_after(k), "before": r.before(k) if k else -1, "after": r.after(k) if k else -1,
                     "posAtIndex": [r.pos_at_index(i, k) for i in range(node.child_count + 1)]}
            path.append(entry)
        ev["path"] = path
        ev["parentOffset"] = r.parent_offset
        ev["textOffset"] = r.text_offset
        ev["nodeAfter"] = _opt_node(r.node_after)
        ev["nodeBefore"] = _opt_node(r.node_before)
        try:
            ev["marks"] = {"kind": "ok", "out": proj.pmarks(r.marks())}
        except Exception as ex:  # noqa: BLE001
            ev["marks"] = {"kind": "raise", "cls": type(ex).__name__, "out": []}
        ev["res"] = {"kind": "ok"}
    except Exception as ex:  # noqa: BLE001
        ev["res"] = {"kind": "raise", "cls": type(ex).__name__, "msg": str(ex)[:100]}
    return b.add(ev)


def ev_pair(b, sch, doc, di, p, q, marks):
    ev = {"ev": "Pair", "di": di, "p": p, "q": q}
    try:
        rp, rq = doc.resolve(p), doc.resolve(q)
        ev["shared"] = rp.shared_depth(q)
        br = rp.block_range(rq)
        if br is None:
            ev["blockRange"] = {"none": True}
        else:
            ev["blockRange"] = {"none": False, "depth": br.depth, "start": br.start, "end": br.end,
                                "startIndex": br.start_index, "endIndex": br.end_index}
        ma = rp.marks_across(rq)
        ev["marksAcross"] = {"none": True, "marks": []} if ma is None else {"none": False, "marks": proj.pmarks(ma)}
        hm = []
        lo, hi = min(p, q), max(p, q)
        for m in marks:
            hm.append({"mark": proj.pmark(m), "byType": False, "out": bool(doc.range_has_mark(lo, hi, m))})
            hm.append({"mark": proj.pmark(m), "byType": True, "out": bool(doc.range_has_mark(lo, hi, m.type))})
        ev["hasMark"] = hm
        ev["res"] = {"kind": "ok"}
    except Exception as ex:  # noqa: BLE001
        ev["res"] = {"kind": "raise", "cls": type(ex).__name__, "msg": str(ex)[:100]}
    return b.add(ev)


def ev_walk(b, doc, di, f, t, prune, sep, leaf):
    ev = {"ev": "Walk", "di": di, "from": f, "to": t, "prune": prune}
    try:
        visits = []

        def cb(node, pos, parent, index):
            visits.append({"pos": pos, "t": node.type.name, "index": index, "parent": parent.type.name if parent is not None else "?"})
            return False if node.type.name == prune else None
        doc.nodes_between(f, t, cb)
        ev["visits"] = visits
        try:
            out = doc.text_between(f, t, sep, leaf)
            ev["text"] = {"kind": "ok", "sep": proj.units(sep), "leaf": proj.units(leaf), "out": proj.units(out)}
        except Exception as ex:  # noqa: BLE001
            ev["text"] = {"kind": "raise", "cls": type(ex).__name__, "sep": [], "leaf": [], "out": []}
        ev["res"] = {"kind": "ok"}
    except Exception as ex:  # noqa: BLE001
        ev["res"] = {"kind": "raise", "cls": type(ex).__name__, "msg": str(ex)[:100]}
    return b.add(ev)


def ev_nodeat(b, doc, di, p):
    ev = {"ev": "NodeAt", "di": di, "pos": p}
    try:
        ev["nodeAt"] = _opt_node(doc.node_at(p))
        fi1 = doc.content.find_index(p, -1)
        fi2 = doc.content.find_index(p, 1)
        ev["findIndex"] = [[fi1["index"], fi1["offset"]], [fi2["index"], fi2["offset"]]]
        ca = doc.child_after(p)
        ev["childAfter"] = {"index": ca["index"], "offset": ca["offset"], "node": _opt_node(ca["node"])}
        cb = doc.child_before(p)
        ev["childBefore"] = {"index": cb["index"], "offset": cb["offset"], "node": _opt_node(cb["node"])}
        ev["size"] = doc.content.size
        ev["textContent"] = proj.units(doc.text_content)
        ev["res"] = {"kind": "ok"}
    except Exception as ex:  # noqa: BLE001
        ev["res"] = {"kind": "raise", "cls": type(ex).__name__, "msg": str(ex)[:100]}
    return b.add(ev)


def doc_events(b, sch, rd, toks, rng, pairs_per_doc, marks, prunes):
    di = b.doc(toks)
    n = rd.content.size
    for p in range(n + 1):
        ev_resolve(b, rd, di, p)
        ev_nodeat(b, rd, di, p)
    allpairs = [(p, q) for p in range(n + 1) for q in range(n + 1)]
    if len(allpairs) > pairs_per_doc:
        allpairs = rng.sample(allpairs, pairs_per_doc)
    for p, q in allpairs:
        ev_pair(b, sch, rd, di, p, q, marks)
        if p <= q:
            ev_walk(b, rd, di, p, q, rng.choice(prunes), rng.choice(["", "\n", "|"]), rng.choice(["", "*"]))


def run(tier: str, seed: int, t0: float) -> int:
    stats = Stats()
    out: list[Violation] = []
    thorough = tier == "thorough"
    rng = random.Random(seed)
    EM, LINK = universe.EM, universe.LINK
    sch, js = schemas.build("s1t")
    mb = universe.bounds(5 if not thorough else 6, marksets=((), (EM,), (LINK,)))
    path = tlc.write_input({"schema": js, "gen": mb}, "mcres")
    r = tlc.run_tlc("MC_Resolve", "MC_Resolve.cfg", env={"PMV_INPUT": path}, timeout=3000)
    if not r.ok:
        raise core.MachineryError("MC_Resolve: " + "; ".join(r.errors[:3]) + r.stdout[-1500:])
    stats.add_tlc(r, "M MC_Resolve")
    jobs = []
    # ---- G+T
    gb = universe.bounds(4 if not thorough else 5, marksets=((), (EM,), (LINK,), (LINK, EM)))
    sch, js, docs = universe.tlc_docs("s1t", gb, stats)
    b = trace.Batch(js)
    marks = [sch.marks["em"].create(), sch.marks["link"].create({"href": "u"})]
    for d in docs:
        rd = proj.unproj(sch, d)
        doc_events(b, sch, rd, d, rng, 1000, marks, ["", "p", "bq"])
    stats.bounds["docs_exhaustive"] = len(docs)
    stats.exhaustive = True
    jobs.append((b, "G+T resolve[s1t]"))
    # ---- G+T: several coexisting non-inclusive marks ending at the same position
    def mk(*names):
        return tuple({"t": n, "a": "{}"} for n in names)
    gbm = universe.bounds(4 if not thorough else 5, max_depth=2, max_run=1, chars=(97,),
                          marksets=((), mk("n1"), mk("n1", "n2"), mk("n1", "em", "n2"), mk("n2", "n3"), mk("n1", "n2", "n3"), mk("em")))
    schm, jsm, mdocs = universe.tlc_docs("s1m", gbm, stats)
    bm = trace.Batch(jsm)
    marks_m = [schm.marks[n].create() for n in ("n1", "n2")]
    selm = mdocs if thorough or len(mdocs) <= 400 else rng.sample(mdocs, 400)
    for d in selm:
        doc_events(bm, schm, proj.unproj(schm, d), d, rng, 30, marks_m, ["", "p"])
    stats.bounds["docs_noninclusive_marks"] = len(selm)
    jobs.append((bm, "G+T resolve[s1m]"))
    # ---- T random
    for name in schemas.BUNDLED_PLUS + ["s1", "s3", "at", "bm"]:
        sch2, js2, prs = universe.random_docs(name, 12 if not thorough else 120, rng)
        b2 = trace.Batch(js2)
        marks2 = []
        for mt in list(sch2.marks.values())[:3]:
            try:
                marks2.append(mt.create({a: "foo" for a in mt.attrs}))
            except Exception:  # noqa: BLE001
                pass
        prunes = [""] + [n for n in sch2.nodes if n not in ("text",)][:4]
        for toks, rd in prs:
            doc_events(b2, sch2, rd, toks, rng, 25, marks2, prunes)
        jobs.append((b2, f"T resolve[{name}]"))
    vs = trace.validate_many([("Trace_Resolve", bb, what) for bb, what in jobs], stats)
    api = {"Resolve": "Node.resolve", "Pair": "ResolvedPos.shared_depth/block_range/marks_across", "Walk": "Node.nodes_between/text_between",
           "NodeAt": "Node.node_at/child_after/child_before"}
    for (bb, what), verdicts in zip(jobs, vs):
        for e in bb.events:
            v = verdicts[e["id"]]
            stats.traces += 1
            stats.count(f"{e['ev']}:{v}")
            if v.startswith("skip"):
                stats.skipped += 1
            d = bb.docs[e["di"] - 1]
            astral = any(t["k"] == "x" and 0xD800 <= t["c"] < 0xE000 for t in d)
            case = {"ev": e["ev"], "doc": short(d), **{k2: e[k2] for k2 in ("pos", "p", "q", "from", "to", "prune") if k2 in e}}
            stats.case(case, nontrivial=not v.startswith("skip"))
            if astral and v == "ok":
                stats.count("astral:ok")
            if v.startswith("bad:"):
                sig = {}
                if e["res"].get("kind") == "raise":
                    sig["exc"] = e["res"]["cls"]
                for sub in ("marks", "text"):
                    if isinstance(e.get(sub), dict) and e[sub].get("kind") == "raise":
                        sig["exc"] = e[sub]["cls"]
                from .c02 import inside_surrogate
                if any(k2 in e and inside_surrogate(d, e[k2]) for k2 in ("pos", "p", "q", "from", "to")):
                    sig["cond"] = "position inside a surrogate pair"
                detail = f"{what}: {json.dumps(case)[:300]} observed={json.dumps({k2: v2 for k2, v2 in e.items() if k2 not in ('id', 'di', 'ev')})[:500]}"
                out.append(Violation(v[4:], api[e["ev"]], detail, {"schema": bb.schema_js["name"], "doc": d, "event": e}, sig))
    for key, least in (("Resolve:ok", 1000), ("Pair:ok", 1000), ("Walk:ok", 500), ("NodeAt:ok", 1000), ("astral:ok", 50)):
        if stats.counts.get(key, 0) < least:
            core.vacuity(out, f"vacuity gate: {key}={stats.counts.get(key, 0)} < {least}")
    return core.finish("C09", tier, seed, stats, out, t0,
                       rule="(document, position) for every ResolvedPos accessor and lookup; (document, position pair) for shared depth, block range, "
                            "marks across, range-has-mark, nodes_between (with pruning) and text_between (with separators / leaf text); documents: all "
                            "TLC-generated documents within bounds (all positions, all pairs) + random bundled documents with non-BMP text",
                       assumptions=["projection", "TLC/SANY, Json module"])


def replay(path: str) -> int:
    with open(path) as f:
        body = json.load(f)
    print(json.dumps(body["replay"])[:3000])
    return 0
