"""C13 - adding and removing marks over a range has exactly the documented effect.

M: spec/mc/MC_MarkOps.tla - laws of AddMarkOp / RemoveMarkOp under several exclusion configurations.
G+T: every TLC-generated document x every range x every mark: add_mark, remove_mark (mark / type / all),
     node-level mark and attribute edits at every position, set_node_markup, set_block_type;
T: random bundled documents and random mark configurations, ranges crossing block boundaries.
Judged by spec/trace/Trace_Ops.tla (VC13): exact token-level result for mark operations and node-level
edits; outcome contract for block retyping.
"""
from __future__ import annotations

import json
import random

from .. import core, opdrive, proj, schemas, tlc, trace, universe
from ..core import Stats, Violation
from .c02 import short
from . import c14


def mark_universe(sch):
    out = []
    for mt in sch.marks.values():
        names = list(mt.attrs)
        if not names:
            out.append(mt.create())
        else:
            out.append(mt.create({a: "u" for a in names}))
            out.append(mt.create({a: "v" for a in names}))
    return out


def doc_events(b, sch, rd, toks, rng, marks, n_ranges, total=True, all_ranges=False):
    di = b.doc(toks)
    n = rd.content.size
    ranges = [(f, t) for f in range(n + 1) for t in range(f, n + 1)]
    if not all_ranges and len(ranges) > n_ranges:
        ranges = rng.sample(ranges, n_ranges)
    # marks the document itself carries - first those of a type that occurs twice on one node (comment threads): removing
    # one instance must leave the other
    present, twice = [], []
    def see(node, pos, parent, index):
        for mk in node.marks:
            if all(not mk.eq(o) for o in present):
                present.append(mk)
            if sum(1 for o in node.marks if o.type == mk.type) > 1 and all(not mk.eq(o) for o in twice):
                twice.append(mk)
    rd.descendants(see)
    for f, t in ranges:
        own = twice[:2] + rng.sample(present, min(len(present), 1))
        for m in own:
            opdrive.ev_mark_op(b, rd, di, "remove_mark", f, t, mark=m)
        for m in (marks if all_ranges else rng.sample(marks, min(len(marks), 2))):
            opdrive.ev_mark_op(b, rd, di, "add_mark", f, t, mark=m)
            opdrive.ev_mark_op(b, rd, di, "remove_mark", f, t, mark=m)
            opdrive.ev_mark_op(b, rd, di, "remove_mark_type", f, t, mtype=m.type)
        opdrive.ev_mark_op(b, rd, di, "remove_mark_all", f, t)
    # node-level edits at every node position
    poss = []
    rd.descendants(lambda node, pos, parent, index: poss.append((pos, node)) if not node.is_text else None)
    tbs = [nt for nt in sch.nodes.values() if nt.is_textblock]
    for pos, node in (poss if all_ranges else rng.sample(poss, min(len(poss), 6))):
        for m in rng.sample(marks, min(len(marks), 2)):
            opdrive.ev_node_op(b, sch, rd, di, "add_node_mark", pos, mark=m)
            opdrive.ev_node_op(b, sch, rd, di, "remove_node_mark", pos, mark=m)
        for mk in node.marks:
            opdrive.ev_node_op(b, sch, rd, di, "remove_node_mark", pos, mark=mk)
        for a in node.attrs:
            opdrive.ev_node_op(b, sch, rd, di, "set_node_attribute", pos, attr=a, value=rng.choice([1, 2, "z", None]))
        same_kind = [nt for nt in sch.nodes.values() if not nt.is_text and nt.is_leaf == node.is_leaf and nt.is_inline == node.is_inline
                     and nt != sch.top_node_type]
        for nt in rng.sample(same_kind, min(len(same_kind), 3)):
            attrs = {a: 2 for a in nt.attrs} or None
            opdrive.ev_node_op(b, sch, rd, di, "set_node_markup", pos, ntype=nt, attrs=attrs)
    for f, t in rng.sample(ranges, min(len(ranges), 8)) + [(0, n)]:
        for nt in tbs:
            attrs = {a: 2 for a in nt.attrs} or None
            opdrive.ev_set_block_type(b, rd, di, f, t, nt, attrs)


def run(tier: str, seed: int, t0: float) -> int:
    stats = Stats()
    out: list[Violation] = []
    thorough = tier == "thorough"
    rng = random.Random(seed)
    EM, LINK = universe.EM, universe.LINK
    # ---- M under several exclusion configurations
    fam = c14.family(rng, 12 if not thorough else 40)      # the twelve fixed configurations (+ random ones when thorough)
    U = [{"t": "m1", "a": "{}"}, {"t": "m2", "a": "{}"}, {"t": "m3", "a": "{\"id\":1}"}, {"t": "m3", "a": "{\"id\":2}"}]
    plans = []
    for spec, excl, order in fam:
        js = schemas.export(spec, "markcfg")
        gb = {"maxToks": 4 if not thorough else 5, "maxDepth": 2, "maxRun": 2, "maxKids": 0, "chars": [97],
              "marksets": [[], [U[0]], [U[1]], [U[2]], [U[0], U[2]], [U[2], U[3]]], "attrs": {}, "marku": U[:3]}
        plans.append((tlc.write_input({"schema": js, "gen": gb}, "mcmark"), excl))
    from concurrent.futures import ThreadPoolExecutor

    def one(p):
        return tlc.run_tlc("MC_MarkOps", "MC_MarkOps.cfg", env={"PMV_INPUT": p[0]}, workers=2, heap="3g", timeout=3000)
    with ThreadPoolExecutor(max_workers=8) as ex:
        for (path, excl), r in zip(plans, ex.map(one, plans)):
            if not r.ok:
                raise core.MachineryError(f"MC_MarkOps on {excl}: " + "; ".join(r.errors[:3]) + r.stdout[-1500:])
            stats.add_tlc(r, "M MC_MarkOps")
    jobs = []
    # ---- G+T: s1t
    LV = {"t": "link", "a": "{\"href\":\"v\"}"}
    gb = universe.bounds(4 if not thorough else 5, marksets=((), (EM,), (LINK,), (LV,), (LINK, EM)))
    sch, js, docs = universe.tlc_docs("s1t", gb, stats)
    b = trace.Batch(js)
    marks = mark_universe(sch)
    sel = docs if thorough or len(docs) <= 120 else rng.sample(docs, 120)
    for d in sel:
        doc_events(b, sch, proj.unproj(sch, d), d, rng, marks, 0, all_ranges=True)
    stats.bounds["docs_exhaustive"] = len(sel)
    jobs.append((b, "G+T markops[s1t]"))
    # ---- T: exclusion configurations on real schemas
    for spec, excl, order in fam[:12 if not thorough else 20]:
        from prosemirror.model import Schema
        sch3 = Schema(spec)
        js3 = schemas.export(spec, "markcfg")
        from .. import gen
        g = gen.DocGen(js3, rng)
        b3 = trace.Batch(js3)
        marks3 = mark_universe(sch3)
        for _ in range(10 if not thorough else 60):
            try:
                rd = proj.unproj(sch3, g.doc())
                toks = proj.proj(rd)
            except Exception:  # noqa: BLE001
                continue
            doc_events(b3, sch3, rd, toks, rng, marks3, 10)
        jobs.append((b3, f"T markops[cfg {excl}]"))
    # ---- T: bundled
    for name in schemas.BUNDLED_PLUS + ["s1", "at", "s4", "bm"]:
        sch2, js2, prs = universe.random_docs(name, 10 if not thorough else 100, rng, size=1.3)
        b2 = trace.Batch(js2)
        marks2 = mark_universe(sch2)
        for toks, rd in prs:
            doc_events(b2, sch2, rd, toks, rng, marks2, 8)
        # line breaks next to non-BMP characters (block retyping turns them into spaces)
        _s, _j, prs2 = universe.random_docs(name, 6 if not thorough else 60, rng, size=1.3, alphabet=["\U0001F600", "\n", "a", "\r", "b"])
        tbs = [nt for nt in sch2.nodes.values() if nt.is_textblock]
        for toks, rd in prs2:
            di = b2.doc(toks)
            for nt in tbs:
                opdrive.ev_set_block_type(b2, rd, di, 0, rd.content.size, nt, {a: 2 for a in nt.attrs} or None)
        jobs.append((b2, f"T markops[{name}]"))
    # ---- T: the replace-family / mark operations the repository's own test-suite performs (tracer plug-in)
    from .. import suitetrace
    sjobs, note = suitetrace.replay_calls("mark")
    stats.notes.append(note)
    stats.count("testsuite_calls", sum(len(bb.events) for bb, _ in sjobs))
    jobs.extend(sjobs)
    vs = trace.validate_many([("Trace_Ops", bb, what, {"prop": "C13"}) for bb, what in jobs], stats)
    for (bb, what), verdicts in zip(jobs, vs):
        for e in bb.events:
            v = verdicts[e["id"]]
            stats.traces += 1
            stats.count(f"{e['op']}:{v}")
            if v.startswith("skip"):
                stats.skipped += 1
            d = bb.docs[e["di"] - 1]
            case = {"op": e["op"], "doc": short(d), **{k2: e[k2] for k2 in ("from", "to", "pos", "mark", "what", "tgt") if k2 in e and e[k2] not in (0, None)}}
            changed = e["res"]["kind"] == "ok" and e["out"] != d
            stats.case(case, nontrivial=not v.startswith("skip") and changed)
            if changed and v == "ok":
                stats.count(f"{e['op']}:changed")
            if v.startswith("bad:"):
                sig = {"op": e["op"]}
                if e["res"]["kind"] == "raise":
                    sig["exc"] = e["res"]["cls"]
                from .c02 import inside_surrogate
                if any(k2 in e and inside_surrogate(d, e[k2]) for k2 in ("from", "to")):
                    sig["cond"] = "position inside a surrogate pair"
                case["res"] = e["res"]
                case["out"] = short(e["out"])
                out.append(Violation(v[4:], "Transform." + e["op"], f"{what}: {json.dumps(case)[:700]}",
                                     {"schema": bb.schema_js["name"], "doc": d, "event": e}, sig))
    for key, least in (("add_mark:changed", 300), ("remove_mark:changed", 100), ("remove_mark_type:changed", 100), ("remove_mark_all:changed", 100),
                       ("add_node_mark:ok", 20), ("remove_node_mark:ok", 20), ("set_node_attribute:ok", 20), ("set_node_markup:ok", 50),
                       ("set_block_type:changed", 50)):
        if stats.counts.get(key, 0) < least:
            core.vacuity(out, f"vacuity gate: {key}={stats.counts.get(key, 0)} < {least}")
    return core.finish("C13", tier, seed, stats, out, t0,
                       rule="(document, range, mark) for add_mark / remove_mark (mark, type, all); (document, node position) for node marks, attributes, "
                            "markup; (document, range, textblock type) for set_block_type; documents: all TLC-generated documents with mixed mark sets "
                            "(every range, every mark), random documents under exclusion configurations and bundled schemas; non-trivial = the operation changed the document",
                       assumptions=["set_block_type / leaf set_node_markup are judged by contract (valid, outside unchanged, content kept up to whitespace and dropped children)",
                                    "projection", "TLC/SANY, Json module"])


def replay(path: str) -> int:
    with open(path) as f:
        body = json.load(f)
    print(json.dumps(body["replay"])[:3000])
    return 0
