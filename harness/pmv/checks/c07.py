"""C07 - validity predicates agree exactly with the schema's definition of validity.

M: spec/mc/MC_Validity.tla - the declarative and the incremental formulation of validity agree on
   every token sequence (valid or not) up to a length bound.
G+T: nodes of every TLC-generated document x every child index range x replacement fragments x
   sub-ranges (can_replace), x node types x mark sets (can_replace_with), x other nodes
   (can_append), type x fragment (valid_content, create_checked), whole documents incl. mutated
   invalid ones (check); T: the same queries at random on bundled schemas.  Judged by Trace_Doc.
"""
from __future__ import annotations

import json
import random

from .. import core, gen, proj, schemas, tlc, trace, universe
from ..core import Stats, Violation
from .c02 import short


def outcome(fn):
    try:
        return {"kind": "ok"}, fn()
    except Exception as ex:  # noqa: BLE001
        return {"kind": "raise", "cls": type(ex).__name__, "valueerror": isinstance(ex, ValueError)}, None


def nodes_of(doc):
    """(node, ) for the document and every non-text, non-leaf descendant."""
    out = [doc]

    def visit(node, pos, parent, index):
        if not node.is_leaf and not node.is_text:
            out.append(node)
    doc.descendants(visit)
    return out


def mutate(rng, sch, doc):
    """A structurally well-formed but possibly invalid variant of a document (built without
    validation through the public constructors)."""
    from prosemirror.model import Fragment
    nodes = nodes_of(doc)
    target = rng.choice(nodes)
    kids = [target.child(i) for i in range(target.child_count)]
    how = rng.choice(["drop", "dup", "swap", "marks", "retype", "foreign"])
    if how == "drop" and kids:
        kids.pop(rng.randrange(len(kids)))
    elif how == "dup" and kids:
        kids.insert(rng.randrange(len(kids) + 1), rng.choice(kids))
    elif how == "swap" and len(kids) > 1:
        rng.shuffle(kids)
    elif how == "marks" and kids and sch.marks:
        i = rng.randrange(len(kids))
        ms = [mt.create({a: "u" for a in mt.attrs}) for mt in rng.sample(list(sch.marks.values()), min(len(sch.marks), rng.choice([1, 2, 2])))]
        if rng.random() < 0.5:
            ms = ms + ms[:1]     # duplicate
        kids[i] = kids[i].mark(ms)
    elif how == "foreign":
        other = rng.choice(nodes)
        if other.child_count:
            kids.insert(rng.randrange(len(kids) + 1), other.child(rng.randrange(other.child_count)))
    else:
        nts = [nt for nt in sch.nodes.values() if not nt.is_text and not nt.is_leaf and not nt.has_required_attrs()]
        if kids and nts:
            i = rng.randrange(len(kids))
            if not kids[i].is_text and not kids[i].is_leaf:
                kids[i] = rng.choice(nts).create(None, kids[i].content, kids[i].marks)
    new_target = target.copy(Fragment(kids))
    return rebuild(doc, target, new_target)


def rebuild(root, old, new):
    from prosemirror.model import Fragment
    if root is old:
        return new
    kids = []
    changed = False
    for i in range(root.child_count):
        c = root.child(i)
        c2 = rebuild(c, old, new) if not c.is_text else c
        changed = changed or c2 is not c
        kids.append(c2)
    return root.copy(Fragment(kids)) if changed else root


def add_queries(b, sch, rng, nodes, frags, marksets, budget):
    """Validity queries on the given nodes; frags: list of real Fragments (replacement universe)."""
    types = list(sch.nodes.values())
    n_ev = 0
    for node in nodes:
        di = b.doc(proj.proj_fragment(node.content))
        tname = node.type.name
        cc = node.child_count
        # can_replace: every index range x sampled fragments x every sub-range
        for f in range(cc + 1):
            for t in range(f, cc + 1):
                for fr in rng.sample(frags, min(len(frags), 3)):
                    dj = b.doc(proj.proj_fragment(fr))
                    n = fr.child_count
                    for s in range(n + 1):
                        for e in range(s, n + 1):
                            if n_ev > budget:
                                return
                            res, v = outcome(lambda: node.can_replace(f, t, fr, s, e))
                            b.add({"ev": "CanReplace", "di": di, "di2": dj, "type": tname, "from": f, "to": t, "start": s, "end": e,
                                   "res": res, "out": bool(v) if v is not None else False})
                            n_ev += 1
                for nt in rng.sample(types, min(len(types), 3)):
                    ms = rng.choice(marksets)
                    res, v = outcome(lambda: node.can_replace_with(f, t, nt, ms))
                    b.add({"ev": "CanReplaceWith", "di": di, "type": tname, "from": f, "to": t, "ntype": nt.name,
                           "marks": proj.pmarks(ms), "res": res, "out": bool(v) if v is not None else False})
                    n_ev += 1
        for other in rng.sample(nodes, min(len(nodes), 3)):
            dj = b.doc(proj.proj_fragment(other.content))
            res, v = outcome(lambda: node.can_append(other))
            b.add({"ev": "CanAppend", "di": di, "di2": dj, "type": tname, "otype": other.type.name, "res": res,
                   "out": bool(v) if v is not None else False})
            n_ev += 1
    for fr in frags:
        di = b.doc(proj.proj_fragment(fr))
        for nt in types:
            if nt.is_text:
                continue
            res, v = outcome(lambda: nt.valid_content(fr))
            b.add({"ev": "ValidContent", "di": di, "type": nt.name, "res": res, "out": bool(v) if v is not None else False})
            attrs = {a: "v" for a in nt.attrs}
            res, v = outcome(lambda: nt.create_checked(attrs, fr))
            b.add({"ev": "CreateChecked", "di": di, "type": nt.name, "res": res})


def add_checks(b, sch, rng, docs, n_mut):
    for d in docs:
        res, _ = outcome(lambda: d.check())
        b.add({"ev": "Check", "di": b.doc(proj.proj(d)), "type": d.type.name, "res": res})
        for _ in range(n_mut):
            try:
                m = mutate(rng, sch, d)
            except Exception:  # noqa: BLE001
                continue
            res, _ = outcome(lambda: m.check())
            b.add({"ev": "Check", "di": b.doc(proj.proj(m)), "type": m.type.name, "res": res})


def marksets_of(sch, rng):
    out = [[]]
    ms = [mt.create({a: "u" for a in mt.attrs}) for mt in sch.marks.values()]
    for m in ms:
        out.append([m])
    for _ in range(4):
        if len(ms) >= 2:
            pair = rng.sample(ms, 2)
            out.append(pair)                 # possibly non-canonical order
    if ms:
        out.append([ms[0], ms[0]])
    return out


def run(tier: str, seed: int, t0: float) -> int:
    stats = Stats()
    out: list[Violation] = []
    thorough = tier == "thorough"
    rng = random.Random(seed)
    # ---- M
    sch, js = schemas.build("s1t")

    def tok(k, t="", m=(), c=0):
        return {"k": k, "t": t, "a": {}, "m": list(m), "c": c, "b": False}
    EM, LINK = universe.EM, universe.LINK
    vocab = [tok("o", "p"), tok("o", "bq"), tok("c"), tok("l", "hr"), tok("l", "br"), tok("l", "br", [EM]), tok("x", "text", (), 97),
             tok("x", "text", [EM], 97), tok("x", "text", [LINK, EM], 97), tok("o", "p", [EM]), tok("l", "p")]
    path = tlc.write_input({"schema": js, "gen": {"maxToks": 5 if not thorough else 6, "vocab": vocab}}, "mcval")
    r = tlc.run_tlc("MC_Validity", "MC_Validity.cfg", env={"PMV_INPUT": path}, timeout=3000)
    if not r.ok:
        raise core.MachineryError("MC_Validity: " + "; ".join(r.errors[:3]) + r.stdout[-1500:])
    stats.add_tlc(r, "M MC_Validity")
    jobs = []
    # ---- G+T: TLC-generated documents
    for sname, gb in (("s1t", universe.bounds(5 if not thorough else 6, marksets=((), (EM,), (LINK,)))),):
        sch, js, docs = universe.tlc_docs(sname, gb, stats)
        real = [proj.unproj(sch, d) for d in docs]
        nodes, seen = [], set()
        for rd in real:
            for nd in nodes_of(rd):
                k = (nd.type.name, json.dumps(proj.proj_fragment(nd.content), sort_keys=True))
                if k not in seen:
                    seen.add(k)
                    nodes.append(nd)
        frags = [nd.content for nd in nodes] + [nd.content.cut_by_index(0, 1) for nd in nodes if nd.child_count > 1]
        b = trace.Batch(js)
        add_queries(b, sch, rng, nodes, frags, marksets_of(sch, rng), 40000 if not thorough else 400000)
        add_checks(b, sch, rng, real if thorough else rng.sample(real, min(len(real), 300)), 3)
        stats.bounds[f"nodes_{sname}"] = len(nodes)
        jobs.append((b, f"G+T validity[{sname}]"))
    # ---- T random
    for name in schemas.BUNDLED_PLUS + ["s1", "s3", "s4", "nd", "bm"]:
        sch, js, pairs = universe.random_docs(name, 20 if not thorough else 200, rng)
        real = [rd for _, rd in pairs]
        nodes = [nd for rd in real for nd in nodes_of(rd)]
        nodes = rng.sample(nodes, min(len(nodes), 40 if not thorough else 400))
        frags = [nd.content for nd in nodes][:30]
        b = trace.Batch(js)
        add_queries(b, sch, rng, nodes, frags, marksets_of(sch, rng), 3000 if not thorough else 30000)
        add_checks(b, sch, rng, real, 4)
        jobs.append((b, f"T validity[{name}]"))
    vs = trace.validate_many([("Trace_Doc", b, what) for b, what in jobs], stats)
    api = {"Check": "Node.check", "ValidContent": "NodeType.valid_content", "CreateChecked": "NodeType.create_checked",
           "CanReplace": "Node.can_replace", "CanReplaceWith": "Node.can_replace_with", "CanAppend": "Node.can_append"}
    for (b, what), verdicts in zip(jobs, vs):
        for e in b.events:
            v = verdicts[e["id"]]
            stats.traces += 1
            key = e["ev"] + ":" + (v if not v.startswith("ok") else ("ok-true" if e.get("out", e["res"]["kind"] == "ok") else "ok-false"))
            stats.count(key)
            if v.startswith("skip"):
                stats.skipped += 1
            elif v.startswith("drift"):
                stats.drift += 1
            d = b.docs[e["di"] - 1]
            case = {k2: v2 for k2, v2 in e.items() if k2 not in ("id", "di", "di2")}
            case["node"] = f"{e['type']}({short(d)})"
            if "di2" in e:
                case["other"] = short(b.docs[e["di2"] - 1])
            stats.case(case, nontrivial=not v.startswith("skip"))
            if v.startswith("bad:"):
                sig = {}
                if e["res"].get("kind") == "raise":
                    sig["exc"] = e["res"]["cls"]
                out.append(Violation(v[4:], api[e["ev"]], f"{what}: {json.dumps(case)[:500]}",
                                     {"schema": b.schema_js["name"], "event": e, "node_content": d,
                                      "other": b.docs[e["di2"] - 1] if "di2" in e else None}, sig))
    for key, least in (("CanReplace:ok-true", 300), ("CanReplace:ok-false", 300), ("CanReplaceWith:ok-true", 200), ("CanReplaceWith:ok-false", 200),
                       ("CanAppend:ok-true", 30), ("CanAppend:ok-false", 30), ("Check:ok-true", 100), ("Check:ok-false", 100),
                       ("ValidContent:ok-true", 50), ("ValidContent:ok-false", 200), ("CreateChecked:ok-true", 50), ("CreateChecked:ok-false", 200)):
        if stats.counts.get(key, 0) < least:
            core.vacuity(out, f"vacuity gate: {key}={stats.counts.get(key, 0)} < {least}")
    return core.finish("C07", tier, seed, stats, out, t0,
                       rule="validity queries: (node, child index range, replacement fragment, sub-range), (node, range, type, mark set), (node, other node), "
                            "(type, fragment), whole documents incl. mutated invalid ones; nodes from all TLC-generated documents + random bundled documents; "
                            "non-trivial = inside the quantifier (well-formed canonical node whose own content matches)",
                       assumptions=["can_append with an empty other node is compared with CompatibleContent as drift only",
                                    "projection proj/unproj", "TLC/SANY, Json module"])


def replay(path: str) -> int:
    with open(path) as f:
        body = json.load(f)
    print(json.dumps(body["replay"])[:3000])
    return 0
