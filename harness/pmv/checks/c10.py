"""C10 - documents and their parts are immutable values.

M: spec/mc/MC_Transform.tla (AppendOnly as a temporal property of the editing machine) - the
   specification's accumulators only grow.
T: long random sessions (model queries, replaces, every step type, every Transform method, mark-set
   operations, mapping operations, JSON and DOM conversion) in which the driver keeps *every* object it
   ever obtained - documents, fragments, slices, marks, mark lists, attrs dictionaries, steps, step maps
   and the shared singletons - and re-reads all of them through the public read API after every call.
   spec/trace/Trace_Immutable.tla checks the action property `live' = live` on value objects and
   prefix-growth on the two accumulators (Transform, Mapping).
"""
from __future__ import annotations

import hashlib
import json
import random

from .. import core, ops, proj, schemas, steps, tlc, trace, universe, watchdog
from ..core import Stats, Violation
from .c05 import scramble


def dig(x) -> str:
    return hashlib.sha1(json.dumps(x, sort_keys=True, default=str).encode()).hexdigest()[:12]


class Live:
    """Registry of every object obtained so far with a reader for its observable state."""

    def __init__(self):
        self.items = []          # (kind, obj, label)
        self.ids = set()

    def add(self, kind, obj, label="", always=False):
        if obj is None:
            return
        key = (kind, id(obj))
        # whole documents, steps and accumulators are always tracked; their parts up to a cap
        if key in self.ids or (len(self.items) >= 400 and not always) or len(self.items) >= 900:
            return
        self.ids.add(key)
        self.items.append((kind, obj, label))

    def read(self, kind, obj):
        from prosemirror.model import Fragment
        if kind == "node":
            return {"k": "v", "h": dig([proj.proj_node(obj), json.dumps(obj.to_json(), sort_keys=True, default=str), obj.node_size])}
        if kind == "frag":
            return {"k": "v", "h": dig([proj.proj_fragment(obj), obj.size, obj.child_count])}
        if kind == "slice":
            return {"k": "v", "h": dig([proj.proj_slice(obj), obj.size])}
        if kind == "mark":
            return {"k": "v", "h": dig(proj.pmark(obj))}
        if kind == "marklist":
            return {"k": "v", "h": dig(proj.pmarks(obj))}
        if kind == "attrs":
            return {"k": "v", "h": dig(json.dumps(obj, sort_keys=True, default=str))}
        if kind == "step":
            return {"k": "v", "h": dig([steps.pstep(obj), json.dumps(obj.to_json(), sort_keys=True, default=str)])}
        if kind == "stepmap":
            return {"k": "v", "h": dig([list(obj.ranges), bool(obj.inverted)])}
        if kind == "json":
            return {"k": "v", "h": dig(json.dumps(obj, sort_keys=True, default=str))}
        if kind == "transform":
            hs = [dig([steps.pstep(s), proj.proj(d), list(m.ranges)]) for s, d, m in zip(obj.steps, obj.docs, obj.mapping.maps)]
            if not (len(obj.steps) == len(obj.docs) == len(obj.mapping.maps)):
                # the three sequences only grow together: anything else rewrites the accumulator
                hs = [f"misaligned {len(obj.steps)}/{len(obj.docs)}/{len(obj.mapping.maps)}"] + hs
            return {"k": "a", "hs": hs}
        if kind == "mapping":
            return {"k": "a", "hs": [dig([list(m.ranges), bool(m.inverted)]) for m in obj.maps]}
        if kind == "mappingvalue":
            # a mapping that is no longer appended to by anybody: a value like any other
            return {"k": "v", "h": dig([[list(m.ranges), bool(m.inverted)] for m in obj.maps] + [list(obj.mirror or []), obj.from_, obj.to])}
        raise ValueError(kind)

    def snapshot(self):
        out = []
        for kind, obj, _ in self.items:
            try:
                out.append(self.read(kind, obj))
            except Exception as ex:  # noqa: BLE001 - an object that can no longer be read has changed
                out.append({"k": "v", "h": "unreadable:" + type(ex).__name__})
        return out

    def hold_node(self, node, depth=0):
        self.add("node", node, always=depth == 0)
        self.add("attrs", node.attrs)
        self.add("marklist", node.marks)
        for m in node.marks:
            self.add("mark", m)
        if not node.is_text:
            self.add("frag", node.content)
            if depth < 3:
                for i in range(node.child_count):
                    self.hold_node(node.child(i), depth + 1)


def session(b, sch, js, rng, start_docs, slices, tid, ncalls, dom=None):
    from prosemirror.model import Fragment, Mark, Node, Slice
    from prosemirror.transform import Mapping, Step, StepMap, Transform
    live = Live()
    live.add("frag", Fragment.empty, "Fragment.empty")
    live.add("marklist", Mark.none, "Mark.none")
    live.add("slice", Slice.empty, "Slice.empty")
    live.add("stepmap", StepMap.empty, "StepMap.empty")
    docs = list(start_docs)
    for d in docs:
        live.hold_node(d)
    for s in slices[:5]:
        live.add("slice", s)
        live.add("frag", s.content)
    sg = steps.StepGen(sch, js, rng, slices)
    og = ops.OpGen(sch, js, rng, slices, sg)
    trs = [Transform(docs[0])]
    live.add("transform", trs[0])
    live.add("mapping", trs[0].mapping)
    held_steps = []
    marksets = [[]]
    retired = []          # mappings of finished transforms (tracked as values)
    pending_lists = []    # caller-owned mark lists in non-canonical order (tracked as values)
    marks_pool = []
    for mt_ in sch.marks.values():
        try:
            marks_pool.append(mt_.create({a: "v" for a in mt_.attrs if mt_.attrs[a].is_required} or None))
        except Exception:  # noqa: BLE001
            pass
    log = []

    def call(name, fn):
        k, v = watchdog.call(fn, 5.0)
        log.append(name)
        return v if k == "ok" else None

    b.add({"ev": "Snap", "tid": tid, "seq": 0, "op": "init", "snaps": live.snapshot()})
    for seq in range(1, ncalls + 1):
        name = "?"
        try:
            kind = rng.choice(["op", "op", "op", "step", "step", "query", "replace", "marks", "json", "mapping", "newtr", "dom", "stepalg", "helpers", "helpers"])
            doc = rng.choice(docs)
            n = doc.content.size
            f = rng.randint(0, n)
            t = rng.randint(f, n)
            name = kind
            if kind == "op":
                tr = rng.choice(trs)
                nm, args, thunk = og.pick(tr)
                name = "Transform." + nm
                call(name, thunk)
                docs.append(tr.doc)
                live.hold_node(tr.doc)
                for s in tr.steps[-3:]:
                    live.add("step", s)
                    held_steps.append(s)
                for m in tr.mapping.maps[-3:]:
                    live.add("stepmap", m)
            elif kind == "newtr":
                tr = Transform(doc)
                trs.append(tr)
                live.add("transform", tr)
                live.add("mapping", tr.mapping)
            elif kind == "step":
                st = sg.random_step(doc)
                live.add("step", st)
                held_steps.append(st)
                name = "Step.apply/" + steps.pstep(st)["type"]
                r = call(name, lambda: st.apply(doc))
                if r is not None and r.doc is not None:
                    docs.append(r.doc)
                    live.hold_node(r.doc)
                    inv = call("Step.invert", lambda: st.invert(doc))
                    if inv is not None:
                        live.add("step", inv)
                        r2 = call("Step.apply(inverse)", lambda: inv.apply(r.doc))
                        if r2 is not None and r2.doc is not None:
                            live.hold_node(r2.doc)
                    sm = call("Step.get_map", st.get_map)
                    live.add("stepmap", sm)
            elif kind == "stepalg" and len(held_steps) >= 2:
                a, c = rng.sample(held_steps, 2)
                name = "Step.merge/map"
                m = call("Step.merge", lambda: a.merge(c))
                if m is not None:
                    live.add("step", m)
                mm = call("Step.map", lambda: a.map(c.get_map()))
                if mm is not None:
                    live.add("step", mm)
            elif kind == "query":
                name = "queries"

                def q():
                    rp = doc.resolve(f)
                    rp.marks()
                    rp.node_after
                    rp.node_before
                    rp.block_range(doc.resolve(t))
                    doc.nodes_between(f, t, lambda *a: None)
                    doc.text_between(f, t, "\n", "*")
                    doc.node_at(f)
                    doc.check()
                    doc.content.find_diff_start(rng.choice(docs).content)
                    doc.content.find_diff_end(rng.choice(docs).content)
                    doc.can_replace(0, doc.child_count, rng.choice(docs).content)
                    doc.type.content_match.fill_before(doc.content, True)
                    # the per-position read-only queries at every position (marks at / across a range - also with
                    # non-inclusive marks ending inside it -, shared depth, neighbours, range_has_mark by type and instance)
                    mts = list(sch.marks.values())
                    for p in range(n + 1):
                        try:
                            rp = doc.resolve(p)
                            rp.marks()
                            for e in {p, min(n, p + 1), min(n, p + rng.randint(0, 6)), n}:
                                rp.marks_across(doc.resolve(e))
                                rp.shared_depth(e)
                            rp.node_after, rp.node_before, rp.text_offset      # noqa: B018
                            for mt in mts:
                                doc.range_has_mark(p, min(n, p + 3), mt)
                            for mk in (rp.node_after.marks if rp.node_after is not None else []):
                                doc.range_has_mark(0, n, mk)
                                mk.is_in_set(rp.marks())
                        except Exception:  # noqa: BLE001 - positions inside surrogate pairs (known finding of C02); state must be intact
                            pass
                call(name, q)
            elif kind == "helpers":
                name = "structure helpers"
                from prosemirror.transform import can_join, can_split, drop_point, find_wrapping, insert_point, join_point, lift_target
                from prosemirror.transform.structure import NodeTypeWithAttrs
                nts = [nt for nt in sch.nodes.values() if not nt.is_text and not nt.has_required_attrs()]

                def h():
                    for p in range(n + 1):
                        full = p % 7 == 0        # the other helpers at a sample of positions
                        for depth in (1, 2, 3):
                            can_split(doc, p, depth)
                            rp = doc.resolve(p)
                            tas = [[NodeTypeWithAttrs(rng.choice(nts)) for _ in range(rng.randint(1, depth))]]
                            if rp.depth >= depth:
                                # the shape editor commands pass: the types of the nodes being split (e.g. [list_item, paragraph])
                                own = [NodeTypeWithAttrs(rp.node(rp.depth - depth + 1 + j).type, dict(rp.node(rp.depth - depth + 1 + j).attrs) or None) for j in range(depth)]
                                tas += [own, own[:1]]
                            for ta in tas:
                                try:
                                    can_split(doc, p, depth, ta)
                                except Exception:  # noqa: BLE001 - an odd types_after list may be refused; state must still be intact
                                    pass
                        if not full:
                            continue
                        q = min(n, p + rng.randint(0, 5))
                        for fn in (lambda: can_join(doc, p), lambda: join_point(doc, p, rng.choice([-1, 1])),
                                   lambda: insert_point(doc, p, rng.choice(nts)),
                                   lambda: drop_point(doc, p, rng.choice(slices)) if slices else None,
                                   lambda: lift_target(doc.resolve(p).block_range(doc.resolve(q))) if doc.resolve(p).block_range(doc.resolve(q)) is not None else None,
                                   lambda: find_wrapping(doc.resolve(p).block_range(doc.resolve(q)), rng.choice(nts)) if doc.resolve(p).block_range(doc.resolve(q)) is not None else None):
                            try:
                                fn()
                            except Exception:  # noqa: BLE001 - a raising helper is C12's business; here only state matters
                                pass
                    Slice.max_open(doc.content, rng.random() < 0.5)
                call(name, h)
            elif kind == "replace":
                name = "Node.slice/cut/replace"
                sl = call("Node.slice", lambda: doc.slice(f, t))
                if sl is not None:
                    live.add("slice", sl)
                    live.add("frag", sl.content)
                fr = call("Fragment.cut", lambda: doc.content.cut(f, t))
                if fr is not None:
                    live.add("frag", fr)
                other = rng.choice(slices) if slices else Slice.empty
                d2 = call("Node.replace", lambda: doc.replace(f, t, other))
                if d2 is not None:
                    docs.append(d2)
                    live.hold_node(d2)
                ap = call("Fragment.append", lambda: doc.content.append(rng.choice(docs).content))
                if ap is not None:
                    live.add("frag", ap)
                if doc.child_count:
                    rc = call("Fragment.replace_child", lambda: doc.content.replace_child(0, rng.choice(docs).child(0) if rng.choice(docs).child_count else doc.child(0)))
                    live.add("frag", rc)
                    live.add("frag", call("Fragment.add_to_start", lambda: doc.content.add_to_start(doc.child(0))))
                    live.add("frag", call("Fragment.add_to_end", lambda: doc.content.add_to_end(doc.child(0))))
                    live.add("frag", call("Fragment.from_array", lambda: Fragment.from_array([doc.child(i) for i in range(doc.child_count)])))
            elif kind == "marks":
                name = "Mark set ops"
                m = sg.mark()
                if m is not None:
                    live.add("mark", m)
                    ms = rng.choice(marksets)
                    r = call("Mark.add_to_set", lambda: m.add_to_set(ms))
                    if r is not None:
                        live.add("marklist", r)
                        marksets.append(r)
                    r = call("Mark.remove_from_set", lambda: m.remove_from_set(ms))
                    if r is not None:
                        live.add("marklist", r)
                    live.add("marklist", call("Mark.set_from", lambda: Mark.set_from(list(reversed(ms)))))
                    # caller-owned lists in non-canonical order (registered a call earlier) handed to the constructors
                    for lst in pending_lists[-2:]:
                        live.add("marklist", call("Mark.set_from", lambda: Mark.set_from(lst)))
                        nd_ = call("Schema.text", lambda: sch.text("q", lst))
                        if nd_ is not None:
                            live.add("node", nd_)
                        leafs = [t_ for t_ in sch.nodes.values() if t_.is_leaf and not t_.is_text and not t_.has_required_attrs()]
                        if leafs:
                            nd2 = call("NodeType.create", lambda: leafs[0].create(None, None, lst))
                            if nd2 is not None:
                                live.add("node", nd2)
                    if len(ms) >= 2:
                        fresh_list = list(reversed(ms))
                        pending_lists.append(fresh_list)
                        live.add("marklist", fresh_list)
                    elif len(ms) == 1 and marks_pool:
                        other_m = rng.choice(marks_pool)
                        if other_m.type != ms[0].type:
                            fresh_list = sorted([ms[0], other_m], key=lambda x: -x.type.rank)
                            pending_lists.append(fresh_list)
                            live.add("marklist", fresh_list)
                    pt = rng.choice(list(sch.nodes.values()))
                    live.add("marklist", call("NodeType.allowed_marks", lambda: pt.allowed_marks(ms)))
                    # the mark sets the documents themselves hold (node.marks, marks at a position), handed to
                    # the set operations of marks and mark types
                    held = []
                    doc.descendants(lambda node, pos, parent, index: held.append(node.marks) if node.marks else None)
                    try:
                        held.append(doc.resolve(rng.randint(0, doc.content.size)).marks())
                    except Exception:  # noqa: BLE001
                        pass
                    for hs in (held if len(held) <= 4 else rng.sample(held, 4)):
                        live.add("marklist", hs)
                        for mt in {x.type for x in hs} | {m.type}:
                            live.add("marklist", call("MarkType.remove_from_set", lambda: mt.remove_from_set(hs)))
                            call("MarkType.is_in_set", lambda: mt.is_in_set(hs))
                        for x in list(hs)[:2] + [m]:
                            live.add("marklist", call("Mark.remove_from_set", lambda: x.remove_from_set(hs)))
                            live.add("marklist", call("Mark.add_to_set", lambda: x.add_to_set(hs)))
                            call("Mark.is_in_set", lambda: x.is_in_set(hs))
                        live.add("marklist", call("NodeType.allowed_marks", lambda: pt.allowed_marks(hs)))
                        call("Mark.same_set", lambda: Mark.same_set(hs, ms))
            elif kind == "json":
                name = "to_json/from_json"
                j = call("Node.to_json", doc.to_json)
                if j is not None:
                    y = call("Node.from_json", lambda: Node.from_json(sch, json.loads(json.dumps(j))))
                    if y is not None:
                        live.hold_node(y)
                    scramble(j)      # the returned JSON belongs to the caller
                if held_steps:
                    st = rng.choice(held_steps)
                    js_ = call("Step.to_json", st.to_json)
                    if js_ is not None:
                        y = call("Step.from_json", lambda: Step.from_json(sch, json.loads(json.dumps(js_))))
                        live.add("step", y)
                        scramble(js_)
                if slices:
                    sl = rng.choice(slices)
                    j2 = call("Slice.to_json", sl.to_json)
                    if j2 is not None:
                        scramble(j2)
            elif kind == "mapping":
                name = "Mapping ops"
                tr = rng.choice(trs)
                mp = tr.mapping
                call("Mapping.map", lambda: [mp.map(p) for p in range(0, n + 1, 3)])
                sl_ = call("Mapping.slice", lambda: mp.slice(0, len(mp.maps) // 2))
                cp = call("Mapping.copy", mp.copy)
                if cp is not None:
                    live.add("mapping", cp)
                    call("Mapping.append_mapping", lambda: cp.append_mapping(mp))
                    call("Mapping.append_mapping_inverted", lambda: cp.append_mapping_inverted(mp))
                inv = call("Mapping.invert", mp.invert)
                if inv is not None:
                    live.add("mapping", inv)
                # "map through several transforms": a finished transform's mapping is handed to a fresh mapping that
                # is then appended to; the argument must stay what it was
                # (the argument was registered as a live value in an earlier call, so that its state before these
                # operations is known)
                for arg in retired[-2:]:
                    fresh = Mapping()
                    call("Mapping.append_mapping", lambda: fresh.append_mapping(arg))
                    call("Mapping.append_map", lambda: fresh.append_map(StepMap([0, 0, 1])))
                    call("Mapping.append_mapping", lambda: fresh.append_mapping(mp))
                    fresh2 = Mapping()
                    call("Mapping.append_mapping_inverted", lambda: fresh2.append_mapping_inverted(arg))
                    call("Mapping.append_map", lambda: fresh2.append_map(StepMap([0, 1, 0])))
                    live.add("mapping", fresh)
                    live.add("mapping", fresh2)
                tr2 = Transform(doc)
                for _ in range(rng.randint(1, 3)):
                    try:
                        tr2.maybe_step(sg.random_step(tr2.doc))
                    except Exception:  # noqa: BLE001
                        pass
                if tr2.steps:
                    retired.append(tr2.mapping)
                    live.add("mappingvalue", tr2.mapping)
            elif kind == "dom" and dom is not None:
                name = "DOM"
                ser, parser = dom

                def d_():
                    import lxml.html
                    frag = ser.serialize_fragment(doc.content)
                    html = str(frag)
                    back = parser.parse(lxml.html.fragment_fromstring(html, create_parent="document-fragment"))
                    return back
                back = call("DOMSerializer/DOMParser", d_)
                if back is not None:
                    live.hold_node(back)
        except Exception as ex:  # noqa: BLE001 - a corrupted live object can break the driver itself; the snapshot below shows it
            name = f"{name} (driver saw {type(ex).__name__})"
        b.add({"ev": "Snap", "tid": tid, "seq": seq, "op": name, "snaps": live.snapshot()})
    return live, log


def run(tier: str, seed: int, t0: float) -> int:
    stats = Stats()
    out: list[Violation] = []
    thorough = tier == "thorough"
    rng = random.Random(seed)
    # ---- M
    sch, js, docs = universe.tlc_docs("s1t", universe.bounds(3), stats)
    path = tlc.write_input({"schema": js, "starts": docs, "maxSteps": 2, "marks": [universe.EM], "maxToks": 6}, "mctr")
    r = tlc.run_tlc("MC_Transform", "MC_Transform.cfg", env={"PMV_INPUT": path}, timeout=3000)
    if not r.ok:
        raise core.MachineryError("MC_Transform: " + "; ".join(r.errors[:3]) + r.stdout[-1500:])
    stats.add_tlc(r, "M MC_Transform (AppendOnly, Aligned)")
    jobs = []
    lives = {}
    tid = 0
    for name in schemas.BUNDLED_PLUS:
        sch2, js2, prs = universe.random_docs(name, 20 if not thorough else 80, rng, size=1.7)
        reals = [rd for _, rd in prs]
        slices = []
        for rd in reals:
            n = rd.content.size
            for _ in range(2):
                f = rng.randint(0, n)
                t = rng.randint(f, n)
                try:
                    slices.append(rd.slice(f, t))
                except Exception:  # noqa: BLE001
                    pass
        dom = None
        try:
            from prosemirror.model import DOMParser, DOMSerializer
            dom = (DOMSerializer.from_schema(sch2), DOMParser.from_schema(sch2))
        except Exception:  # noqa: BLE001
            dom = None
        b = trace.Batch(js2)
        for k in range(5 if not thorough else 20):
            tid += 1
            start = rng.sample(reals, min(len(reals), 3))
            # a derived document shares sub-trees with its source
            live, log = session(b, sch2, js2, rng, start, slices, tid, 40 if not thorough else 120, dom)
            lives[tid] = live
        jobs.append((b, f"T immutable[{name}]"))
    vs = trace.validate_many([("Trace_Immutable", bb, what) for bb, what in jobs], stats)
    for (bb, what), verdicts in zip(jobs, vs):
        for e in bb.events:
            v = verdicts[e["id"]]
            stats.traces += 1
            stats.count("op:" + e["op"].split("/")[0])
            stats.count("verdict:" + v.split("@")[0])
            stats.case({"op": e["op"], "live_objects": len(e["snaps"]), "seq": e["seq"]}, nontrivial=e["seq"] > 0)
            if v.startswith("bad:"):
                clause, _, idx = v[4:].partition("@")
                kind, obj, label = lives[e["tid"]].items[int(idx) - 1] if idx else ("?", None, "")
                out.append(Violation(clause, e["op"], f"{what}: after {e['op']} (call {e['seq']} of session {e['tid']}) live object #{idx} of kind {kind} {label} changed",
                                     {"schema": bb.schema_js["name"], "op": e["op"], "seq": e["seq"], "object_kind": kind, "label": label},
                                     {"kind": kind, "op": e["op"].split("/")[0]}))
    stats.counts["max_live_objects"] = max(len(e["snaps"]) for bb, _ in jobs for e in bb.events)
    for key, least in (("verdict:ok", 500), ("max_live_objects", 150)):
        if stats.counts.get(key, 0) < least:
            core.vacuity(out, f"vacuity gate: {key}={stats.counts.get(key, 0)} < {least}")
    for op in ("Transform.replace", "Transform.add_mark", "Step.apply", "queries", "Node.slice", "Mark set ops", "to_json", "Mapping ops", "DOM", "structure helpers"):
        if stats.counts.get("op:" + op, 0) < 3:
            core.vacuity(out, f"vacuity gate: op:{op}={stats.counts.get('op:' + op, 0)} < 3")
    return core.finish("C10", tier, seed, stats, out, t0,
                       rule="sessions of 40 (quick) / 120 (thorough) public calls over model queries, slice/cut/replace/fragment construction, every step type "
                            "(apply, invert, map, merge, get_map), every Transform method, mark-set operations, mapping operations, JSON and DOM conversion; "
                            "after every call every object ever obtained (up to 400 per session, sub-trees shared between documents) is re-read; one event per call",
                       assumptions=["snapshots are taken through the public read API (proj, to_json, sizes); digests are compared by TLC",
                                    "JSON returned by to_json belongs to the caller and is mutated by the driver after use"])


def replay(path: str) -> int:
    with open(path) as f:
        body = json.load(f)
    print(json.dumps(body["replay"])[:3000])
    return 0
