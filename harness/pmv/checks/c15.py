"""C15 - content filling and wrapper search are sound and find an answer when one exists.

M: spec/mc/MC_Fill.tla - the specification's fixed-point search agrees with brute-force
   enumeration of fillers on every small expression (self-check of the oracle).
T: for every node type of a family of schemas (bundled + variants, the structure-test schema, a
   content-search family with non-generatable types, leaves and cyclic wrappers) and every
   TLC-enumerated expression over an alphabet, every reachable match state (reached by a witness
   prefix) x every following fragment of length <= 2 x to_end x start index for fill_before, x
   every target type for find_wrapping, plus default_type and create_and_fill; judged by
   spec/trace/Trace_Content.tla.
"""
from __future__ import annotations

import itertools
import json
import random

from .. import core, exprparse, proj, schemas, tlc, trace
from ..core import Stats, Violation
from . import c06

S5 = {
    "nodes": {
        "doc": {"content": "block+"},
        "p": {"content": "text*", "group": "block", "attrs": {"align": {"default": None}}},      # fillers / wrappers with an
        "bq": {"content": "block+", "group": "block", "attrs": {"cite": {"default": None}}},     # attribute defaulting to None
        "ul": {"content": "li+", "group": "block"},
        "li": {"content": "p block*"},
        "fig": {"content": "cap figimg", "group": "block"},
        "cap": {"content": "text*"},
        "figimg": {},
        "sect": {"content": "head block* sect*", "group": "top"},
        "head": {"content": "text*"},
        "card": {"content": "(pic | figimg) p", "group": "block"},   # first child may be non-generatable
        "pic": {"attrs": {"src": {}}},
        "box": {"content": "(p | box2)+", "group": "block", "attrs": {"kind": {}}},   # wrapper needing attrs
        "box2": {"content": "box?"},
        "deep": {"content": "deep2", "group": "block"},
        "deep2": {"content": "deep3"},
        "deep3": {"content": "p+"},
        "tbl": {"content": "row+", "group": "block"},
        "row": {"content": "cell+"},
        "cell": {"content": "block+"},
        "text": {"group": "inline"},
    },
}
STRUCT = {
    "nodes": {
        "doc": {"content": "head? block* sect* closing?"},
        "para": {"content": "text*", "group": "block"},
        "head": {"content": "text*", "marks": ""},
        "figure": {"content": "caption figureimage", "group": "block"},
        "quote": {"content": "block+", "group": "block"},
        "figureimage": {},
        "caption": {"content": "text*", "marks": ""},
        "sect": {"content": "head block* sect*"},
        "closing": {"content": "text*"},
        "text": {"group": "inline"},
        "fixed": {"content": "head para closing", "group": "block"},
    },
    "marks": {"em": {}},
}


# an inline node whose content is block content (a footnote holding paragraphs): wrapping searches that start in
# inline content can reach block types through it
NOTE = {
    "nodes": {
        "doc": {"content": "block+"},
        "p": {"content": "(text | note | br)*", "group": "block"},
        "h": {"content": "text*", "group": "block"},
        "note": {"content": "(p | lst)+", "inline": True, "group": "inline"},
        "lst": {"content": "item+"},
        "item": {"content": "p+"},
        "bq": {"content": "block+", "group": "block"},
        "br": {"inline": True, "group": "inline"},
        "text": {"group": "inline"},
    },
}


def random_layered_schema(rng):
    """A random well-founded schema with wrapper chains of depth >= 2: leaves, textblocks, two layers of
    containers whose content expressions mix required tails, options and alternatives, and a top node
    that offers the outer containers in random order (the order decides which wrapper is explored first)."""
    from prosemirror.model import Schema
    templates = ["{x}+", "{x}*", "{x} {y}", "{x} {y}?", "({x} | {y})+", "{x}? {y}", "{x}{{2}}", "{x} {y}+", "{x}+ {y}", "({x} {y})+", "{x} | {y}"]
    for _ in range(50):
        nodes = {"text": {}, "tb1": {"content": "text*"}, "tb2": {"content": "text*", "attrs": {"r": {}}}, "lf": {}, "lfr": {"attrs": {"r": {}}}}
        low = ["tb1", "tb2", "lf", "lfr"]
        mids = [f"m{i}" for i in range(rng.randint(2, 4))]
        tops = [f"t{i}" for i in range(rng.randint(2, 4))]
        for m in mids:
            x, y = rng.choice(low), rng.choice(low)      # well-founded: no required cycles
            nodes[m] = {"content": rng.choice(templates).format(x=x, y=y)}
            if rng.random() < 0.2:
                nodes[m]["attrs"] = {"r": {}}
        for t in tops:
            x, y = rng.choice(mids), rng.choice(mids + low)
            nodes[t] = {"content": rng.choice(templates).format(x=x, y=y)}
        order = tops[:]
        rng.shuffle(order)
        nodes = {"doc": {"content": "(" + " | ".join(order + ([rng.choice(mids)] if rng.random() < 0.3 else [])) + ")+"}, **nodes}
        spec = {"nodes": nodes}
        try:
            sch = Schema(spec)
            # well-founded: every generatable type can actually be generated (its own content can be
            # completed with generatable nodes); "lf+ tb2" with a non-generatable tb2 passes the library's
            # dead-end test (upstream's too) but cannot be filled
            if any(nt.create_and_fill() is None for nt in sch.nodes.values() if not nt.is_text and not nt.has_required_attrs()):
                continue
            return spec
        except Exception:  # noqa: BLE001 - dead ends etc.: try another one
            continue
    return None


def reach(cm):
    """Reachable match states with a shortest witness prefix (type names)."""
    states = [(cm, [])]
    seen = {id(cm)}
    k = 0
    while k < len(states):
        st, pre = states[k]
        for i in range(st.edge_count):
            e = st.edge(i)
            if id(e.next) not in seen:
                seen.add(id(e.next))
                states.append((e.next, pre + [e.type.name]))
        k += 1
    return states


def mknode(schema, tname, filled=False):
    nt = schema.nodes[tname]
    if nt.is_text:
        return schema.text("x")
    attrs = {a: "v" for a in nt.attrs}
    if filled:
        node = nt.create_and_fill(attrs)
        if node is None:
            raise ValueError("cannot fill")
        return node
    return nt.create(attrs)


def adjacent_text(seq):
    return any(a == "text" and b == "text" for a, b in zip(seq, seq[1:]))


def outcome_types(fn):
    try:
        r = fn()
    except RecursionError:
        return {"kind": "raise", "cls": "RecursionError"}, None
    except Exception as ex:  # noqa: BLE001
        return {"kind": "raise", "cls": type(ex).__name__}, None
    return None, r


def events_for(schema, js_name, exprs, b_events, k, cm, alphabet, rng, budget, sample_after):
    """Queries on every reachable state of compiled matcher cm (expression index k)."""
    from prosemirror.model import Fragment
    for st, pre in reach(cm):
        afters = [[]] + [[a] for a in alphabet] + [list(p) for p in sample_after]
        for after in afters:
            if adjacent_text(after):
                continue      # two adjacent text nodes would merge into one child
            try:
                frag = Fragment.from_([mknode(schema, a) for a in after])
            except Exception:  # noqa: BLE001
                continue
            for to_end in (False, True):
                for start in range(len(after) + 1):
                    if start and rng.random() < 0.5:
                        continue
                    err, r = outcome_types(lambda: st.fill_before(frag, to_end, start))
                    if err:
                        res = err
                    elif r is None:
                        res = {"kind": "none"}
                    else:
                        kids = [r.child(i) for i in range(r.child_count)]
                        ok = True
                        for nd in kids:
                            try:
                                nd.check()
                            except Exception:  # noqa: BLE001
                                ok = False
                        res = {"kind": "some", "types": [nd.type.name for nd in kids], "nodesvalid": ok}
                    b_events.append({"ev": "Fill", "k": k, "prefix": pre, "after": after, "toEnd": to_end, "start": start, "res": res})
        for target in alphabet:
            err, r = outcome_types(lambda: st.find_wrapping(schema.nodes[target]))
            res = err or ({"kind": "none"} if r is None else {"kind": "some", "types": [t.name for t in r]})
            b_events.append({"ev": "Wrap", "k": k, "prefix": pre, "target": target, "res": res})
        err, r = outcome_types(lambda: st.default_type)
        res = err or ({"kind": "none"} if r is None else {"kind": "some", "type": r.name})
        b_events.append({"ev": "DefaultType", "k": k, "prefix": pre, "res": res})


def schema_jobs(name, spec, rng, stats):
    from prosemirror.model import Fragment, Schema
    schema = Schema(spec)
    js = schemas.export(schemas._strip(spec), name)
    alphabet = [n for n in spec["nodes"]]
    exprs, evs = [], []
    pairs = list(itertools.product(alphabet, repeat=2))
    for n in alphabet:
        nt = schema.nodes[n]
        exprs.append(exprparse.parse(spec["nodes"][n].get("content", "") or ""))
        k = len(exprs)
        events_for(schema, name, exprs, evs, k, nt.content_match, alphabet, rng, 0, rng.sample(pairs, min(len(pairs), 12)))
        # create_and_fill with no, one and two children
        for content in [[]] + [[a] for a in alphabet] + [list(p) for p in rng.sample(pairs, min(len(pairs), 10))]:
            if adjacent_text(content):
                continue
            try:
                nodes = [mknode(schema, a, filled=True) for a in content]
            except Exception:  # noqa: BLE001
                continue
            attrs = {a: "v" for a in nt.attrs}
            if nt.is_text:
                continue
            err, r = outcome_types(lambda: nt.create_and_fill(attrs, nodes or None))
            res = err or ({"kind": "none"} if r is None else {"kind": "some", "toks": proj.proj_node(r)})
            evs.append({"ev": "CreateAndFill", "k": k, "type": n, "content": content, "res": res})
    return js, exprs, evs


def run(tier: str, seed: int, t0: float) -> int:
    stats = Stats()
    out: list[Violation] = []
    thorough = tier == "thorough"
    rng = random.Random(seed)
    # ---- M: oracle self-check
    alpha_js = schemas.export({"nodes": c06.ALPHA_SPEC}, "alpha")
    path = tlc.write_input({"schema": alpha_js, "atoms": ["a", "c", "g"], "ranges": [[2, 2], [0, 2]], "maxSize": 3,
                            "fillLen": 3 if not thorough else 5}, "mcfill")     # (size 4 does not finish within an hour)
    r = tlc.run_tlc("MC_Fill", "MC_Fill.cfg", env={"PMV_INPUT": path}, timeout=3000)
    if not r.ok:
        raise core.MachineryError("MC_Fill: " + "; ".join(r.errors[:3]) + r.stdout[-1500:])
    stats.add_tlc(r, "M MC_Fill")
    jobs = []
    meta = []
    # ---- schemas
    fam = [("s5", S5), ("struct", STRUCT), ("note", NOTE)] + [(n, schemas.spec_of(n)) for n in schemas.BUNDLED_PLUS + ["s1", "s3"]]
    for k in range(12 if not thorough else 120):
        spec = random_layered_schema(rng)
        if spec is not None:
            fam.append((f"rand{k}", spec))
    for name, spec in fam:
        try:
            js, exprs, evs = schema_jobs(name, spec, rng, stats)
        except SyntaxError as ex:
            # every schema of the family is legal (each required position has a generatable filler; the random ones
            # were built and filtered on the code under test itself, so they cannot fail here): a refusal at schema
            # construction means the generatability test behind fill_before / find_wrapping misjudges a type
            out.append(Violation("LegalSchemaRefused", "Schema (check_for_dead_ends / has_required_attrs)",
                                 f"schema {name}: {str(ex)[:200]}", {"schema": name, "spec": schemas._strip(spec)}, {"exc": "SyntaxError"}))
            continue
        b = trace.Batch(js)
        for e in evs:
            b.add(e)
        jobs.append(("Trace_Content", b, f"T content[{name}]", {"exprs": exprs}))
        meta.append((name, exprs))
    # ---- enumerated expressions over the alphabet schema (fill queries; wrappers are leaves here)
    from prosemirror.model import Schema
    size = 3 if not thorough else 4
    path = tlc.write_input({"schema": alpha_js, "atoms": ["a", "b", "c", "g"], "ranges": [[2, 2], [1, -1], [0, 2]], "maxSize": size,
                            "words": exprparse.words_table(["a", "b", "c", "g"])}, "exprgen")
    r = tlc.run_tlc("MC_ExprGen", "MC_ExprGen.cfg", env={"PMV_INPUT": path}, workers=1, heap="4g")
    if not r.ok:
        raise core.MachineryError("MC_ExprGen: " + "; ".join(r.errors[:3]))
    stats.add_tlc(r, "G MC_ExprGen")
    srcs = [exprparse.render(c06.norm_ast(a)) for a in r.printed]
    if not thorough and len(srcs) > 600:
        srcs = rng.sample(srcs, 600)
    exprs, evs = [], []
    alphabet = list(c06.ALPHA_SPEC)
    pairs = list(itertools.product(alphabet, repeat=2))
    for src in srcs:
        nodes = dict(c06.ALPHA_SPEC)
        nodes["n"] = {"content": src}
        try:
            s = Schema({"nodes": nodes})
        except Exception:  # noqa: BLE001 - rejected expressions are C06's business
            continue
        exprs.append(exprparse.parse(src))
        events_for(s, "alpha", exprs, evs, len(exprs), s.nodes["n"].content_match, alphabet, rng, 0, rng.sample(pairs, 4))
    b = trace.Batch(alpha_js)
    for e in evs:
        b.add(e)
    jobs.append(("Trace_Content", b, "T content[alpha exprs]", {"exprs": exprs}))
    meta.append(("alpha", exprs))
    vs = trace.validate_many(jobs, stats)
    for (mod, b, what, extra), verdicts, (name, exprs) in zip(jobs, vs, meta):
        for e in b.events:
            v = verdicts[e["id"]]
            stats.traces += 1
            stats.count(f"{e['ev']}:{v}")
            if v.startswith("skip"):
                stats.skipped += 1
            nontrivial = not v.startswith("skip") and (e["ev"] != "Fill" or e["res"]["kind"] != "some" or bool(e["res"]["types"]) or True)
            stats.case({"schema": name, "ev": e["ev"], "expr": exprparse.render(exprs[e["k"] - 1]), "prefix": e.get("prefix"),
                        "after": e.get("after"), "toEnd": e.get("toEnd"), "start": e.get("start"), "target": e.get("target"),
                        "res": e["res"] if e["ev"] != "CreateAndFill" else e["res"]["kind"]}, nontrivial=nontrivial)
            if v.startswith("bad:"):
                api = {"Fill": "ContentMatch.fill_before", "Wrap": "ContentMatch.find_wrapping", "DefaultType": "ContentMatch.default_type",
                       "CreateAndFill": "NodeType.create_and_fill"}[e["ev"]]
                detail = f"schema {name} expr {exprparse.render(exprs[e['k'] - 1])!r} " + json.dumps({k2: v2 for k2, v2 in e.items() if k2 not in ('id',)})[:400]
                sig = {}
                if e["res"].get("kind") == "raise":
                    sig["exc"] = e["res"]["cls"]
                out.append(Violation(v[4:], api, detail, {"schema": name, "expr": exprparse.render(exprs[e["k"] - 1]), "event": e}, sig))
    for key, least in (("Fill:ok", 3000), ("Wrap:ok", 1000), ("CreateAndFill:ok", 200), ("DefaultType:ok", 100)):
        if stats.counts.get(key, 0) < least:
            core.vacuity(out, f"vacuity gate: {key}={stats.counts.get(key, 0)} < {least}")
    some_fill = sum(1 for (_, b, _, _) in jobs for e in b.events if e["ev"] == "Fill" and e["res"]["kind"] == "some" and e["res"]["types"])
    none_fill = sum(1 for (_, b, _, _) in jobs for e in b.events if e["ev"] == "Fill" and e["res"]["kind"] == "none")
    some_wrap = sum(1 for (_, b, _, _) in jobs for e in b.events if e["ev"] == "Wrap" and e["res"]["kind"] == "some" and e["res"]["types"])
    stats.counts.update({"fill_nonempty": some_fill, "fill_none": none_fill, "wrap_nonempty": some_wrap})
    if some_fill < 200 or none_fill < 200 or some_wrap < 50:
        core.vacuity(out, f"vacuity gate: fill_nonempty={some_fill} fill_none={none_fill} wrap_nonempty={some_wrap}")
    return core.finish("C15", tier, seed, stats, out, t0,
                       rule="(expression, reachable match state by witness prefix, following fragment <= 2 nodes, to_end, start index) for fill_before; "
                            "(state, target type) for find_wrapping; default_type per state; create_and_fill per node type x small contents; "
                            "expressions: node types of 10 schemas incl. non-generatable types/leaves/cycles + TLC-enumerated expressions",
                       assumptions=["create_and_fill may return nothing even if a filling exists (property allows 'or nothing')",
                                    "TLC/SANY, Json module; witness prefixes computed over the public edge() API"])


def replay(path: str) -> int:
    with open(path) as f:
        body = json.load(f)
    print(json.dumps(body["replay"])[:3000])
    return 0
