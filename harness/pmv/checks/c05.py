"""C05 - JSON serialisation of documents, slices, marks and steps is lossless.

M: spec/mc/MC_Json.tla - the wire structure is injective on small documents (Unflat . JsonFlat = id).
G+T: every TLC-generated document (attributes, marks), every cut of them as a slice, every enumerated
     step; T: random documents with every attribute shape (None / defaults / nested lists and dicts),
     non-BMP text; steps of all eight types, each compared on *several* documents.
Every object goes through to_json -> json.dumps -> json.loads -> from_json; the JSON is flattened by the
harness (independently of the library) and judged by spec/trace/Trace_Json.tla; the returned JSON is then
mutated in every mutable leaf to detect aliasing of live objects.
"""
from __future__ import annotations

import copy
import json
import random

from .. import core, gen, proj, schemas, steps, tlc, trace, universe
from ..core import Stats, Violation
from ..schemas import canon
from .c02 import all_cuts, short
from .c01 import small_scope_steps


def flat_json(info, items):
    """Flatten a JSON content list (as produced by the library, parsed back from text) into
    [{tok, keys}] without using the library."""
    out = []
    for obj in items or []:
        keys = sorted(obj.keys())
        marks = [{"t": m["type"], "a": canon(m.get("attrs"))} for m in obj.get("marks", [])]
        if obj["type"] == "text":
            us = proj.units(obj["text"])
            for i, u in enumerate(us):
                out.append({"tok": {"k": "x", "t": "text", "a": {}, "m": marks, "c": u, "b": False}, "keys": keys if i == 0 else []})
            continue
        attrs = {k: canon(v) for k, v in (obj.get("attrs") or {}).items()}
        if info.is_leaf(obj["type"]):
            out.append({"tok": {"k": "l", "t": obj["type"], "a": attrs, "m": marks, "c": 0, "b": False}, "keys": keys})
        else:
            out.append({"tok": {"k": "o", "t": obj["type"], "a": attrs, "m": marks, "c": 0, "b": False}, "keys": keys})
            out.extend(flat_json(info, obj.get("content")))
            out.append({"tok": {"k": "c", "t": "", "a": {}, "m": [], "c": 0, "b": False}, "keys": []})
    return out


def scramble(j):
    """Mutate every mutable part of a JSON value in place."""
    if isinstance(j, dict):
        for k in list(j.keys()):
            scramble(j[k])
        j["__scrambled__"] = 1
    elif isinstance(j, list):
        for x in j:
            scramble(x)
        j.append("__scrambled__")


def snap(obj, kind):
    if kind == "doc":
        return json.dumps(proj.proj(obj), sort_keys=True) + json.dumps(proj.pattrs(obj.attrs), sort_keys=True)
    if kind == "slice":
        return json.dumps(proj.proj_slice(obj), sort_keys=True)
    if kind == "mark":
        return json.dumps(proj.pmark(obj), sort_keys=True)
    if kind == "step":
        return json.dumps(steps.pstep(obj), sort_keys=True)
    raise ValueError(kind)


def ev_doc(b, sch, info, rd):
    from prosemirror.model import Node
    toks = proj.proj(rd)
    ev = {"ev": "JsonDoc", "di": b.doc(toks), "ra": proj.pattrs(rd.attrs)}
    try:
        before = snap(rd, "doc")
        j = rd.to_json()
        text = json.dumps(j)
        j2 = json.loads(text)
        ev["flat"] = flat_json(info, j2.get("content"))
        ev["topkeys"] = sorted(j2.keys())
        y = Node.from_json(sch, j2)
        ev["back"] = proj.proj(y)
        ev["backra"] = proj.pattrs(y.attrs)
        ev["again"] = json.dumps(y.to_json()) == text
        ev["eq"] = bool(y.eq(rd)) and bool(rd.eq(y))
        scramble(j)
        ev["aliased"] = snap(rd, "doc") != before
        ev["res"] = {"kind": "ok"}
    except Exception as ex:  # noqa: BLE001
        ev["res"] = {"kind": "raise", "cls": type(ex).__name__, "msg": str(ex)[:100]}
    return b.add(ev)


def ev_slice(b, sch, info, sl):
    from prosemirror.model import Slice
    ev = {"ev": "JsonSlice", "si": b.slice(proj.proj_slice(sl))}
    try:
        before = snap(sl, "slice")
        j = sl.to_json()
        text = json.dumps(j)
        j2 = json.loads(text)
        if j2 is None:
            ev["shape"] = {"null": True, "keys": [], "os": 0, "oe": 0}
            ev["flat"] = []
        else:
            ev["shape"] = {"null": False, "keys": sorted(j2.keys()), "os": j2.get("openStart", 0), "oe": j2.get("openEnd", 0)}
            ev["flat"] = flat_json(info, j2.get("content"))
        y = Slice.from_json(sch, j2)
        ev["back"] = proj.proj_slice(y)
        ev["again"] = json.dumps(y.to_json()) == text
        if j is not None:
            scramble(j)
        ev["aliased"] = snap(sl, "slice") != before
        ev["res"] = {"kind": "ok"}
    except Exception as ex:  # noqa: BLE001
        ev["res"] = {"kind": "raise", "cls": type(ex).__name__, "msg": str(ex)[:100]}
    return b.add(ev)


def ev_mark(b, sch, m):
    from prosemirror.model import Mark
    ev = {"ev": "JsonMark", "mark": proj.pmark(m)}
    try:
        before = snap(m, "mark")
        j = m.to_json()
        text = json.dumps(j)
        j2 = json.loads(text)
        ev["keys"] = sorted(j2.keys())
        y = Mark.from_json(sch, j2)
        ev["back"] = proj.pmark(y)
        ev["again"] = json.dumps(y.to_json()) == text and y.eq(m)
        scramble(j)
        ev["aliased"] = snap(m, "mark") != before
        ev["res"] = {"kind": "ok"}
    except Exception as ex:  # noqa: BLE001
        ev["res"] = {"kind": "raise", "cls": type(ex).__name__, "msg": str(ex)[:100]}
    return b.add(ev)


def ev_step(b, sch, st, docs_real):
    from prosemirror.transform import Step
    ev = {"ev": "JsonStep", "step": steps.pstep(st), "cases": []}
    try:
        before = snap(st, "step")
        j = st.to_json()
        text = json.dumps(j)
        j2 = json.loads(text)
        ev["stepType"] = j2.get("stepType", "")
        ev["keys"] = sorted(j2.keys())
        y = Step.from_json(sch, j2)
        ev["back"] = steps.pstep(y)
        ev["again"] = json.dumps(y.to_json()) == text
        ev["map1"] = steps.map_ranges(st)
        ev["map2"] = steps.map_ranges(y)
        for rd in docs_real:
            r1, d1 = steps.apply_outcome(st, rd)
            r2, d2 = steps.apply_outcome(y, rd)
            ev["cases"].append({"r1": r1["kind"], "r2": r2["kind"], "out1": proj.proj(d1) if d1 is not None else [],
                                "out2": proj.proj(d2) if d2 is not None else []})
        # aliasing: the JSON must not share mutable state with the step, nor the step with documents it produced
        produced = [steps.apply_outcome(st, rd)[1] for rd in docs_real[:2]]
        psnap = [snap(d, "doc") for d in produced if d is not None]
        scramble(j)
        ev["aliased"] = snap(st, "step") != before or psnap != [snap(d, "doc") for d in produced if d is not None]
        ev["res"] = {"kind": "ok"}
    except Exception as ex:  # noqa: BLE001
        ev["res"] = {"kind": "raise", "cls": type(ex).__name__, "msg": str(ex)[:100]}
    return b.add(ev)


def run(tier: str, seed: int, t0: float) -> int:
    stats = Stats()
    out: list[Violation] = []
    thorough = tier == "thorough"
    rng = random.Random(seed)
    EM, LINK = universe.EM, universe.LINK
    # ---- M
    sch, js = schemas.build("s1")
    gb = universe.bounds(4 if not thorough else 5, marksets=((), (EM,), (LINK,)),
                         attrs={"img": [{"src": "\"i\"", "alt": "null"}], "h": [{"level": "1"}, {"level": "2"}]})
    path = tlc.write_input({"schema": js, "gen": gb}, "mcjson")
    r = tlc.run_tlc("MC_Json", "MC_Json.cfg", env={"PMV_INPUT": path}, timeout=3000)
    if not r.ok:
        raise core.MachineryError("MC_Json: " + "; ".join(r.errors[:3]) + r.stdout[-1500:])
    stats.add_tlc(r, "M MC_Json")
    jobs = []
    # ---- G+T
    sch, js, docs = universe.tlc_docs("s1", gb, stats)
    info = gen.SchemaInfo(js)
    real = [proj.unproj(sch, d) for d in docs]
    b = trace.Batch(js)
    for rd in real:
        ev_doc(b, sch, info, rd)
    cuts = all_cuts(sch, real[:300])
    for sl, _p in cuts:
        ev_slice(b, sch, info, sl)
    from prosemirror.model import Fragment, Slice
    # zero-size slices with open sides
    for rd in real[:100]:
        if rd.child_count and not rd.child(0).is_leaf:
            ev_slice(b, sch, info, Slice(Fragment.from_(rd.child(0).copy(Fragment.empty)), 1, 1))
    sel = rng.sample(range(len(real)), min(len(real), 150 if not thorough else 1500))
    cuts_s = [c for c in cuts if len(c[1]["toks"]) <= 4]
    for k in sel:
        others = [real[k]] + rng.sample(real, 3)
        for st in small_scope_steps(sch, js, real[k], cuts_s, rng, 25):
            ev_step(b, sch, st, others)
    stats.bounds["docs_exhaustive"] = len(real)
    stats.bounds["slices"] = len(cuts)
    jobs.append((b, "G+T json[s1]"))
    # ---- T random
    for name in schemas.BUNDLED_PLUS + ["s1", "s4", "bm", "at"]:
        sch2, js2, prs = universe.random_docs(name, 25 if not thorough else 250, rng, size=1.3)
        info2 = gen.SchemaInfo(js2)
        b2 = trace.Batch(js2)
        slices = []
        reals = [rd for _, rd in prs]
        for rd in reals:
            ev_doc(b2, sch2, info2, rd)
            n = rd.content.size
            for _ in range(4):
                f = rng.randint(0, n)
                t = rng.randint(f, n)
                try:
                    sl = rd.slice(f, t)
                except Exception:  # noqa: BLE001
                    continue
                slices.append(sl)
                ev_slice(b2, sch2, info2, sl)
        sg = steps.StepGen(sch2, js2, rng, slices)
        seen_marks = set()
        for rd in reals:
            for _ in range(12):
                st = sg.random_step(rd)
                ev_step(b2, sch2, st, [rd] + rng.sample(reals, min(len(reals), 2)))
            m = sg.mark()
            if m is not None:
                ev_mark(b2, sch2, m)
        jobs.append((b2, f"T json[{name}]"))
    vs = trace.validate_many([("Trace_Json", bb, what) for bb, what in jobs], stats)
    for (bb, what), verdicts in zip(jobs, vs):
        for e in bb.events:
            v = verdicts[e["id"]]
            stats.traces += 1
            kind = e["ev"] + (":" + e["step"]["type"] if e["ev"] == "JsonStep" else "")
            stats.count(f"{kind}:{v}")
            if v.startswith("skip"):
                stats.skipped += 1
            if e["ev"] == "JsonDoc":
                case = {"ev": e["ev"], "doc": short(bb.docs[e["di"] - 1]), "ra": e["ra"]}
            elif e["ev"] == "JsonSlice":
                s = bb.slices[e["si"] - 1]
                case = {"ev": e["ev"], "slice": f"{short(s['toks'])}({s['os']},{s['oe']})"}
            elif e["ev"] == "JsonMark":
                case = {"ev": e["ev"], "mark": e["mark"]}
            else:
                st = e["step"]
                case = {"ev": e["ev"], "step": {k2: (v2 if k2 != "slice" else f"{short(v2['toks'])}({v2['os']},{v2['oe']})") for k2, v2 in st.items()}}
            stats.case(case, nontrivial=not v.startswith("skip"))
            if v.startswith("bad:"):
                sig = {"ev": kind}
                if e["res"].get("kind") == "raise":
                    sig["exc"] = e["res"]["cls"]
                case["res"] = e["res"]
                case["observed"] = {k2: e[k2] for k2 in ("keys", "stepType", "shape", "again", "eq", "aliased", "topkeys") if k2 in e}
                out.append(Violation(v[4:], {"JsonDoc": "Node.to_json/from_json", "JsonSlice": "Slice.to_json/from_json", "JsonMark": "Mark.to_json/from_json",
                                             "JsonStep": "Step.to_json/from_json"}[e["ev"]],
                                     f"{what}: {json.dumps(case)[:800]}", {"schema": bb.schema_js["name"], "event": {k2: v2 for k2, v2 in e.items() if k2 not in ("flat", "cases")}}, sig))
    need = [("JsonDoc:ok", 300), ("JsonSlice:ok", 300), ("JsonMark:ok", 20)]
    for t in ("replace", "replaceAround", "addMark", "removeMark", "addNodeMark", "removeNodeMark", "attr", "docAttr"):
        need.append((f"JsonStep:{t}:ok", 15))
    for key, least in need:
        if stats.counts.get(key, 0) < least:
            core.vacuity(out, f"vacuity gate: {key}={stats.counts.get(key, 0)} < {least}")
    return core.finish("C05", tier, seed, stats, out, t0,
                       rule="objects pushed through to_json -> json text -> from_json: every TLC-generated document (attributes, marks), every cut of them and "
                            "zero-size open slices, enumerated and random steps of all eight types (effect and map compared on several documents), marks; "
                            "random bundled documents with nested / null attribute values and non-BMP text; aliasing probed by mutating the returned JSON",
                       assumptions=["fidelity of Python's json module on individual values is outside the specification (values are opaque strings)",
                                    "a zero-size slice is serialised as 'no slice' (WireNormal)", "projection", "TLC/SANY, Json module"])


def replay(path: str) -> int:
    with open(path) as f:
        body = json.load(f)
    print(json.dumps(body["replay"])[:3000])
    return 0
