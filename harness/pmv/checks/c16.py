"""C16 - a merged step is equivalent to the two steps it replaces.

M: spec/mc/MC_Pairs.tla (MergeLaw) - the specification's Merge over every ordered pair of replace /
   mark steps on every small document, applied to every document of the universe.
G+T: for every TLC-generated document and every such pair the library's `merge` is called and the merged
   step is applied *by the library* to every document of the universe on which the pair applies;
T: consecutive steps of random typing / deleting / marking sessions on bundled schemas, the merged
   step applied to the session's documents.  Judged by Trace_Doc!VMerge.
"""
from __future__ import annotations

import json
import random

from .. import core, proj, schemas, steps, tlc, trace, universe
from ..core import Stats, Violation
from .c02 import all_cuts, short


def merge_event(b, s1, s2, docs_real, tag):
    """docs_real: list of (tokens, real doc) on which to compare pair vs merged."""
    try:
        m = s1.merge(s2)
        mrec = {"type": "none"} if m is None else steps.pstep(m)
        mres = {"kind": "ok"}
    except Exception as ex:  # noqa: BLE001
        m = None
        mrec = {"type": "none"}
        mres = {"kind": "raise", "cls": type(ex).__name__}
    cases = []
    for toks, rd in docs_real:
        r1, d1 = steps.apply_outcome(s1, rd)
        if d1 is None:
            continue
        r2, d2 = steps.apply_outcome(s2, d1)
        if d2 is None:
            continue
        case = {"di": b.doc(toks), "pair": r2, "pout": proj.proj(d2)}
        if m is not None:
            rm, dm = steps.apply_outcome(m, rd)
            case["m"] = rm
            case["mout"] = proj.proj(dm) if dm is not None else []
        else:
            case["m"] = {"kind": "none"}
            case["mout"] = []
        cases.append(case)
    if not cases:
        return None
    return b.add({"ev": "Merge", "s1": steps.pstep(s1), "s2": steps.pstep(s2), "merged": mrec, "mres": mres, "cases": cases, "tag": tag,
                  "di": cases[0]["di"]})


def small_steps(sch, rd, cuts, rng, n):
    from prosemirror.model import Slice
    from prosemirror.transform import AddMarkStep, RemoveMarkStep, ReplaceStep
    size = rd.content.size
    marks = [sch.marks["em"].create()]
    out = []
    for f in range(size + 1):
        for t in range(f, size + 1):
            for sl, _p in cuts:
                out.append(ReplaceStep(f, t, sl))
            out.append(ReplaceStep(f, t, Slice.empty))
            if t > f:
                for m in marks:
                    out.append(AddMarkStep(f, t, m))
                    out.append(RemoveMarkStep(f, t, m))
    if len(out) > n:
        out = rng.sample(out, n)
    return out


def run(tier: str, seed: int, t0: float) -> int:
    stats = Stats()
    out: list[Violation] = []
    thorough = tier == "thorough"
    rng = random.Random(seed)
    sch, js, docs = universe.tlc_docs("s1t", universe.bounds(3 if not thorough else 4), stats)
    path = tlc.write_input({"schema": js, "starts": docs, "marks": [universe.EM]}, "mcpairs")
    r = tlc.run_tlc("MC_Pairs", "MC_Pairs_Merge.cfg", env={"PMV_INPUT": path}, timeout=3000)
    if not r.ok:
        raise core.MachineryError("MC_Pairs: " + "; ".join(r.errors[:3]) + r.stdout[-1500:])
    stats.add_tlc(r, "M MC_Pairs MergeLaw")
    jobs = []
    # ---- G+T small scope
    LV = {"t": "link", "a": "{\"href\":\"v\"}"}
    sch, js, docs = universe.tlc_docs("s1t", universe.bounds(4 if not thorough else 5, marksets=((), (universe.EM,), (universe.LINK,), (LV,))), stats)
    real = [proj.unproj(sch, d) for d in docs]
    # shaped documents beyond the token bound: three and four text runs with alternating marks in one textblock (a
    # merged mark step can make them all alike at once)
    em = sch.marks["em"].create()
    for runs in ((("a", 0), ("b", 1), ("c", 0)), (("a", 1), ("b", 0), ("c", 1), ("d", 0)), (("a", 0), ("b", 1), ("c", 0), ("d", 1))):
        rd_ = sch.node("doc", None, [sch.node("p", None, [sch.text(ch, [em] if m else []) for ch, m in runs])])
        real.append(rd_)
        docs.append(proj.proj(rd_))
    pairs_dr = list(zip(docs, real))
    cuts = [c for c in all_cuts(sch, real) if len(c[1]["toks"]) <= 3]
    b = trace.Batch(js)
    budget = 2500 if not thorough else 30000
    n = 0
    order = list(range(len(docs) - 3))
    rng.shuffle(order)
    order = [len(docs) - 3, len(docs) - 2, len(docs) - 1] + order          # the shaped documents first
    for k in order:
        rd = real[k]
        for s1 in small_steps(sch, rd, rng.sample(cuts, min(len(cuts), 6)), rng, 25):
            r1, d1 = steps.apply_outcome(s1, rd)
            if d1 is None:
                continue
            for s2 in small_steps(sch, d1, rng.sample(cuts, min(len(cuts), 6)), rng, 25):
                # only pairs that could merge are interesting; others are cheap negatives - sample them
                mergeable = False
                try:
                    mergeable = s1.merge(s2) is not None
                except Exception:  # noqa: BLE001
                    mergeable = True
                if not mergeable and rng.random() > 0.03:
                    continue
                others = rng.sample(pairs_dr, min(len(pairs_dr), 12))
                if merge_event(b, s1, s2, [(docs[k], rd)] + others, "enum") is not None:
                    n += 1
            if n > budget:
                break
        if n > budget:
            break
    jobs.append((b, "G+T merge[s1t]"))
    # ---- T typing / deleting / marking sessions
    from prosemirror.model import Fragment, Slice
    from prosemirror.transform import AddMarkStep, RemoveMarkStep, ReplaceStep, Transform
    for name in schemas.BUNDLED_PLUS:
        sch2, js2, prs = universe.random_docs(name, 15 if not thorough else 150, rng)
        b2 = trace.Batch(js2)
        for toks, rd in prs:
            tr = Transform(rd)
            texts = []
            rd.descendants(lambda node, pos, parent, index: texts.append((pos, node)) if node.is_text else None)
            if not texts:
                continue
            pos, node = rng.choice(texts)
            cur = pos + rng.randint(0, node.node_size)
            mark_pool = [mt.create({a: "u" for a in mt.attrs}) for mt in sch2.marks.values()]
            for _ in range(8):
                kind = rng.choice(["type", "type", "back", "del", "mark", "unmark", "type_open"])
                size = tr.doc.content.size
                cur = max(0, min(cur, size))
                try:
                    if kind == "type":
                        txt = rng.choice(["x", "yz", "\U0001F600"])
                        tr.step(ReplaceStep(cur, cur, Slice(Fragment.from_(sch2.text(txt)), 0, 0)))
                        cur += len(proj.units(txt))
                    elif kind == "type_open":
                        # paste of an open slice cut from the document itself
                        f = rng.randint(0, size)
                        t = rng.randint(f, min(size, f + 4))
                        tr.step(ReplaceStep(cur, cur, tr.doc.slice(f, t)))
                    elif kind == "back" and cur > 0:
                        tr.step(ReplaceStep(cur - 1, cur, Slice.empty))
                        cur -= 1
                    elif kind == "del" and cur < size:
                        tr.step(ReplaceStep(cur, cur + 1, Slice.empty))
                    elif kind in ("mark", "unmark") and mark_pool:
                        f = max(0, cur - rng.randint(0, 3))
                        t = min(size, cur + rng.randint(0, 3))
                        cls = AddMarkStep if kind == "mark" else RemoveMarkStep
                        tr.step(cls(f, t, rng.choice(mark_pool[:2])))
                except Exception:  # noqa: BLE001 - a step that does not apply ends nothing; try another
                    continue
            allv = [*tr.docs, tr.doc]
            for i in range(len(tr.steps) - 1):
                cands = [(proj.proj(d), d) for d in allv] + rng.sample(prs, min(len(prs), 4))
                merge_event(b2, tr.steps[i], tr.steps[i + 1], [(proj.proj(tr.docs[i]), tr.docs[i])] + cands, "session")
        jobs.append((b2, f"T merge[{name}]"))
    vs = trace.validate_many([("Trace_Doc", bb, what) for bb, what in jobs], stats)
    for (bb, what), verdicts in zip(jobs, vs):
        for e in bb.events:
            v = verdicts[e["id"]]
            stats.traces += 1
            merged = e["merged"]["type"] != "none"
            stats.count(("merged:" if merged else "unmerged:") + v)
            stats.count(f"{e['s1']['type']}+{e['s2']['type']}:{'merged' if merged else 'none'}")
            if v.startswith("skip"):
                stats.skipped += 1
            elif v.startswith("drift"):
                stats.drift += 1
                if len(stats.drift_samples) < 5:
                    stats.drift_samples.append({"verdict": v, "s1": str(e["s1"])[:200], "s2": str(e["s2"])[:200]})
            def brief(st):
                x = {k2: v2 for k2, v2 in st.items() if k2 != "slice"}
                if "slice" in st:
                    x["slice"] = f"{short(st['slice']['toks'])}({st['slice']['os']},{st['slice']['oe']})"
                return x
            case = {"s1": brief(e["s1"]), "s2": brief(e["s2"]), "merged": brief(e["merged"]), "ndocs": len(e["cases"]), "doc": short(bb.docs[e["di"] - 1])}
            stats.case(case, nontrivial=merged and not v.startswith("skip"))
            if v.startswith("bad:"):
                out.append(Violation(v[4:], "Step.merge", f"{what}: {json.dumps(case)[:600]}",
                                     {"schema": bb.schema_js["name"], "event": {k2: v2 for k2, v2 in e.items() if k2 != "cases"},
                                      "failing_docs": [bb.docs[c["di"] - 1] for c in e["cases"] if c["pair"]["kind"] == "ok" and (c["m"].get("kind") != "ok" or c["mout"] != c["pout"])][:3]},
                                     {"pair": e["s1"]["type"] + "+" + e["s2"]["type"]}))
    for key, least in (("merged:ok", 300), ("replace+replace:merged", 100), ("addMark+addMark:merged", 10), ("removeMark+removeMark:merged", 10)):
        if stats.counts.get(key, 0) < least:
            core.vacuity(out, f"vacuity gate: {key}={stats.counts.get(key, 0)} < {least}")
    return core.finish("C16", tier, seed, stats, out, t0,
                       rule="ordered pairs of steps (replace with open/closed slices, add-mark, remove-mark) such that the second applies to the result of "
                            "the first; the merged step is applied by the library to every document of a universe on which the pair applies; documents: "
                            "TLC-generated small documents + random bundled documents of typing/deleting/marking sessions; non-trivial = the pair merged",
                       assumptions=["projection", "TLC/SANY, Json module"])


def replay(path: str) -> int:
    with open(path) as f:
        body = json.load(f)
    print(json.dumps(body["replay"])[:3000])
    return 0
