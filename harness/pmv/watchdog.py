"""Watchdog for calls into the library (termination is part of some properties).

The budget is *CPU time of this process* (ITIMER_VIRTUAL): a call that loops forever burns CPU and is
stopped after `seconds`, while a machine that is busy with other work (16 TLC processes, a parallel run
of another check) cannot make a fast call look like a hang.  A generous wall-clock timer backs it up
for calls that block without using CPU.  The cyclic garbage collector is switched off for the duration
of the call: with a million recorded events alive (thorough tiers) one full collection takes several CPU
seconds, which made two instantaneous calls look like hangs in a thorough run of C11."""
from __future__ import annotations

import gc
import signal


class Timeout(BaseException):
    pass


def _handler(signum, frame):
    raise Timeout()


def call(fn, seconds: float = 2.0):
    """Returns ("ok", value) | ("timeout", None) | ("raise", exception)."""
    gc_was_on = gc.isenabled()
    gc.disable()
    old_v = signal.signal(signal.SIGVTALRM, _handler)
    old_r = signal.signal(signal.SIGALRM, _handler)
    signal.setitimer(signal.ITIMER_VIRTUAL, seconds)
    signal.setitimer(signal.ITIMER_REAL, max(60.0, 30 * seconds))
    try:
        return "ok", fn()
    except Timeout:
        return "timeout", None
    except RecursionError as ex:
        return "raise", ex
    except Exception as ex:  # noqa: BLE001
        return "raise", ex
    finally:
        signal.setitimer(signal.ITIMER_VIRTUAL, 0)
        signal.setitimer(signal.ITIMER_REAL, 0)
        signal.signal(signal.SIGVTALRM, old_v)
        signal.signal(signal.SIGALRM, old_r)
        if gc_was_on:
            gc.enable()
