"""Wall-clock watchdog for calls into the library (termination is part of some properties)."""
from __future__ import annotations

import signal


class Timeout(Exception):
    pass


def _handler(signum, frame):
    raise Timeout()


def call(fn, seconds: float = 2.0):
    """Returns ("ok", value) | ("timeout", None) | ("raise", exception)."""
    old = signal.signal(signal.SIGALRM, _handler)
    signal.setitimer(signal.ITIMER_REAL, seconds)
    try:
        return "ok", fn()
    except Timeout:
        return "timeout", None
    except RecursionError as ex:
        return "raise", ex
    except Exception as ex:  # noqa: BLE001
        return "raise", ex
    finally:
        signal.setitimer(signal.ITIMER_REAL, 0)
        signal.signal(signal.SIGALRM, old)
