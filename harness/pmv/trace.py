"""Pipeline T: hand a batch of recorded events to TLC (spec/trace/Trace_*.tla) and
collect one verdict per event."""
from __future__ import annotations

import json
import re

from . import core, tlc

_V = re.compile(r'^<<"V", (\d+), "([^"]*)">>$', re.M)


class Batch:
    """Events over one schema.  Documents and slices are stored once and referenced by
    1-based index (`di`, `si`), which keeps the JSON small and lets the specification
    evaluate validity of each document once."""

    # paths inside an event that hold 1-based indices (or lists of indices) into `docs`
    docref_paths = (("di",), ("di2",), ("doc",), ("docs",), ("replay", "docs"), ("undo", "doc"), ("dis",),
                    ("base",), ("auth",), ("confirmed",))

    def __init__(self, schema_js):
        self.schema_js = schema_js
        self.docs = []
        self.slices = []
        self.events = []
        self._dk = {}
        self._sk = {}

    def doc(self, toks) -> int:
        k = json.dumps(toks, sort_keys=True)
        if k not in self._dk:
            self.docs.append(toks)
            self._dk[k] = len(self.docs)
        return self._dk[k]

    def slice(self, s) -> int:
        k = json.dumps(s, sort_keys=True)
        if k not in self._sk:
            self.slices.append(s)
            self._sk[k] = len(self.slices)
        return self._sk[k]

    def add(self, ev: dict) -> int:
        ev["id"] = len(self.events) + 1
        self.events.append(ev)
        return ev["id"]

    def __len__(self):
        return len(self.events)


def _shard_input(b: Batch, part: list, extra: dict | None):
    import copy
    dmap, smap, docs, slices, evs = {}, {}, [], [], []

    def dref(v):
        if isinstance(v, list):
            return [dref(x) for x in v]
        if v not in dmap:
            docs.append(b.docs[v - 1])
            dmap[v] = len(docs)
        return dmap[v]
    for e in part:
        e = copy.copy(e)
        for path in b.docref_paths:
            holder = e
            ok = True
            for key in path[:-1]:
                if isinstance(holder, dict) and key in holder and isinstance(holder[key], dict):
                    holder[key] = dict(holder[key])
                    holder = holder[key]
                else:
                    ok = False
                    break
            if ok and isinstance(holder, dict) and path[-1] in holder and isinstance(holder[path[-1]], (int, list)) \
                    and not isinstance(holder[path[-1]], bool):
                holder[path[-1]] = dref(holder[path[-1]])
        if "cases" in e:
            e["cases"] = [dict(c, di=dref(c["di"])) if "di" in c else c for c in e["cases"]]
        if "si" in e:
            if e["si"] not in smap:
                slices.append(b.slices[e["si"] - 1])
                smap[e["si"]] = len(slices)
            e["si"] = smap[e["si"]]
        evs.append(e)
    obj = {"schema": b.schema_js, "docs": docs, "slices": slices, "events": evs}
    obj.update(extra or {})
    return obj


def validate_many(jobs: list, stats: core.Stats, *, shards: int = 16, timeout: int = 3000) -> list:
    """jobs: list of (module, Batch, what[, extra_input]).  All shards of all batches share one
    pool of 16 single-worker TLC processes.  Returns one {event id: verdict} per job."""
    plan = []          # (job index, part, env)
    for ji, job in enumerate(jobs):
        module, b, what = job[0], job[1], job[2]
        extra = job[3] if len(job) > 3 else None
        if not b.events:
            continue
        n = max(1, min(shards, (len(b.events) + 199) // 200))
        if b.events and "tid" in b.events[0]:
            # sessions: events of one tid stay together and in order
            groups = {}
            for e in b.events:
                groups.setdefault(e["tid"], []).append(e)
            parts = [[] for _ in range(n)]
            for gi, tid in enumerate(sorted(groups)):
                parts[gi % n].extend(groups[tid])
        else:
            # keep events of one document together (validity of a document is evaluated once per shard)
            order = sorted(b.events, key=lambda e: (e.get("di", 0), e["id"]))
            per = (len(order) + n - 1) // n
            parts = [order[k * per:(k + 1) * per] for k in range(n)]
        for part in parts:
            if part:
                plan.append((ji, part, {"PMV_INPUT": tlc.write_input(_shard_input(b, part, extra), "trace")}))
    # longest first
    plan.sort(key=lambda p: -len(p[1]))
    from concurrent.futures import ThreadPoolExecutor

    def one(p):
        """One shard.  TLC judges the events in order; when it stops on an event (evaluation error of the
        specification on what the code under test produced) that event gets the verdict "crash:<why>" and
        the events after it are handed to a fresh TLC run, so the rest of the shard is still judged."""
        ji, part, env = p
        module, b = jobs[ji][0], jobs[ji][1]
        extra = jobs[ji][3] if len(jobs[ji]) > 3 else None
        verdicts, runs, todo = {}, [], part
        for _attempt in range(12):
            r = tlc.run_tlc(module, module + ".cfg", env=env, workers=1, timeout=timeout, heap="3g", subdir="trace")
            runs.append(r)
            for m in _V.finditer(r.stdout):
                verdicts[int(m.group(1))] = m.group(2)
            missing = [e for e in todo if e["id"] not in verdicts]
            if r.ok and not missing:
                return verdicts, runs, None
            if r.timed_out or not missing or "V" not in r.stdout and not verdicts:
                break
            k = r.stdout.find("The exception was")
            why = " ".join(r.stdout[k:k + 300].split()) if k >= 0 else "; ".join(r.errors[:2])
            crashed = missing[0]
            verdicts[crashed["id"]] = "crash:" + why[:200]
            rest = missing[1:]
            if "tid" in crashed:
                rest = [e for e in rest if e.get("tid") != crashed["tid"] or e.get("ev") == "Begin"]
                for e in missing[1:]:
                    if e.get("tid") == crashed["tid"]:
                        verdicts.setdefault(e["id"], "skip:after-crash")
            todo = rest
            if not todo:
                return verdicts, runs, None
            env = {"PMV_INPUT": tlc.write_input(_shard_input(b, todo, extra), "trace")}
        k = runs[-1].stdout.find("Error:")
        return verdicts, runs, (f"{module}: TLC failed: " + "; ".join(runs[-1].errors[:3]) + "\n"
                               + runs[-1].stdout[max(0, k):k + 2500] + "\n...\n" + runs[-1].stdout[-1200:])
    with ThreadPoolExecutor(max_workers=16) as ex:
        results = list(ex.map(one, plan))
    out = [dict() for _ in jobs]
    for (ji, part, _), (verdicts, runs, err) in zip(plan, results):
        module, what = jobs[ji][0], jobs[ji][2]
        if err:
            raise core.MachineryError(err)
        for r in runs:
            stats.add_tlc(r, f"{what} {module}")
        out[ji].update(verdicts)
        for i, v in verdicts.items():
            if v.startswith("crash:"):
                stats.crashes.append(f"{what} {module} event {i}: {v[6:]}")
        missing = [e["id"] for e in part if e["id"] not in out[ji]]
        if missing:
            raise core.MachineryError(f"{module}: no verdict for events {missing[:5]}\n" + runs[-1].stdout[-1500:])
    return out


def validate(module: str, b: Batch, stats: core.Stats, *, shards: int = 16,
             extra_input: dict | None = None, timeout: int = 3000, what: str = "T") -> dict:
    return validate_many([(module, b, what, extra_input)], stats, shards=shards, timeout=timeout)[0]


def tally(verdicts: dict, stats: core.Stats):
    for v in verdicts.values():
        stats.traces += 1
        if v.startswith("skip"):
            stats.skipped += 1
        elif v.startswith("drift"):
            stats.drift += 1
        stats.count("verdict:" + v)
