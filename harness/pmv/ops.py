"""High-level Transform operations: random choice of an operation with plausible
arguments, execution with outcome classification, and bookkeeping of emitted steps."""
from __future__ import annotations

import json
import random

from . import proj
from .gen import ATTR_POOL, GENERIC_VALUES


REPLACE_FAMILY = ["replace", "replace_with", "insert", "delete", "replace_range", "replace_range_with", "delete_range"]
MARK_OPS = ["add_mark", "remove_mark", "remove_mark_type", "remove_mark_all"]
STRUCT_OPS = ["split", "join", "lift", "wrap"]
NODE_OPS = ["set_block_type", "set_node_markup", "set_node_attribute", "set_doc_attribute", "add_node_mark", "remove_node_mark"]
ALL_OPS = REPLACE_FAMILY + MARK_OPS + STRUCT_OPS + NODE_OPS


class OpGen:
    def __init__(self, schema, js, rng: random.Random, slices, stepgen):
        self.schema = schema
        self.js = js
        self.rng = rng
        self.slices = slices
        self.sg = stepgen

    def some_node(self, inline=None):
        """A small valid node of a random type (for replace_with / insert / replace_range_with)."""
        sg = self.sg
        info = sg.info
        names = [n for n in info.order if n != info.top]
        if inline is True:
            names = [n for n in names if info.is_inline(n)]
        elif inline is False:
            names = [n for n in names if not info.is_inline(n)]
        for _ in range(10):
            n = self.rng.choice(names)
            try:
                if n == "text":
                    ms = [self.sg.mark()] if self.rng.random() < 0.3 and self.schema.marks else None
                    return self.schema.text(self.rng.choice(["q", "hello", "\U0001F600", "a b"]), ms)
                attrs = {a: json.loads(v) for a, v in sg.dg.attrs(n).items()}
                node = self.schema.nodes[n].create_and_fill(attrs)
                if node is not None:
                    node.check()
                    return node
            except Exception:  # noqa: BLE001
                continue
        return None

    def some_nodes(self):
        """A list of two to four inline nodes as a caller of insert / replace_with may pass it: mostly runs of
        text nodes, adjacent ones often with the same markup (the library joins them when it builds the fragment)."""
        r = self.rng
        marks = [None]
        if self.schema.marks:
            m = self.sg.mark()
            if m is not None:
                marks.append([m])
        out = []
        cur = r.choice(marks)
        for _ in range(r.choice([2, 3, 3, 4])):
            if r.random() < 0.25:
                cur = r.choice(marks)
            if r.random() < 0.12:
                nd = self.some_node(inline=True)
                if nd is not None:
                    out.append(nd)
                    continue
            out.append(self.schema.text(r.choice(["q", "he", "\U0001F600", " b", "x"]), cur))
        return out

    def pick(self, tr, ops=None):
        """Returns (name, args description (JSON-able), thunk)."""
        from prosemirror.model import Slice
        from prosemirror.transform import can_join, can_split, find_wrapping, join_point, lift_target
        r = self.rng
        doc = tr.doc
        n = doc.content.size
        name = r.choice(ops or ALL_OPS)
        f = r.randint(0, n)
        t = r.randint(f, n)
        if r.random() < 0.5:
            t = min(n, f + r.randint(0, 5))
        sl = r.choice(self.slices) if self.slices else Slice.empty
        if name == "replace":
            return name, {"from": f, "to": t, "slice": proj.proj_slice(sl)}, lambda: tr.replace(f, t, sl)
        if name in ("replace_with", "insert") and r.random() < 0.3:
            nodes = self.some_nodes()
            desc = [proj.proj_node(x) for x in nodes]
            if name == "insert":
                return name, {"pos": f, "nodes": desc}, lambda: tr.insert(f, nodes)
            return name, {"from": f, "to": t, "nodes": desc}, lambda: tr.replace_with(f, t, nodes)
        if name == "replace_with":
            node = self.some_node()
            if node is None:
                return self.pick(tr, ["delete"])
            return name, {"from": f, "to": t, "node": proj.proj_node(node)}, lambda: tr.replace_with(f, t, node)
        if name == "insert":
            node = self.some_node()
            if node is None:
                return self.pick(tr, ["delete"])
            return name, {"pos": f, "node": proj.proj_node(node)}, lambda: tr.insert(f, node)
        if name == "delete":
            return name, {"from": f, "to": t}, lambda: tr.delete(f, t)
        if name == "replace_range":
            return name, {"from": f, "to": t, "slice": proj.proj_slice(sl)}, lambda: tr.replace_range(f, t, sl)
        if name == "replace_range_with":
            node = self.some_node()
            if node is None:
                return self.pick(tr, ["delete_range"])
            return name, {"from": f, "to": t, "node": proj.proj_node(node)}, lambda: tr.replace_range_with(f, t, node)
        if name == "delete_range":
            return name, {"from": f, "to": t}, lambda: tr.delete_range(f, t)
        if name == "add_mark":
            m = self.sg.mark()
            if m is None:
                return self.pick(tr, ["delete"])
            return name, {"from": f, "to": t, "mark": proj.pmark(m)}, lambda: tr.add_mark(f, t, m)
        if name == "remove_mark":
            m = self.sg.mark()
            if m is None:
                return self.pick(tr, ["delete"])
            return name, {"from": f, "to": t, "mark": proj.pmark(m)}, lambda: tr.remove_mark(f, t, m)
        if name == "remove_mark_type":
            if not self.schema.marks:
                return self.pick(tr, ["delete"])
            mt = r.choice(list(self.schema.marks.values()))
            return name, {"from": f, "to": t, "marktype": mt.name}, lambda: tr.remove_mark(f, t, mt)
        if name == "remove_mark_all":
            return name, {"from": f, "to": t}, lambda: tr.remove_mark(f, t, None)
        if name == "split":
            cands = []
            for p in r.sample(range(n + 1), min(n + 1, 12)):
                for d in (1, 2):
                    try:
                        if can_split(doc, p, d):
                            cands.append((p, d))
                    except Exception:  # noqa: BLE001
                        pass
            if not cands:
                return self.pick(tr, REPLACE_FAMILY)
            p, d = r.choice(cands)
            return name, {"pos": p, "depth": d}, lambda: tr.split(p, d)
        if name == "join":
            cands = []
            for p in r.sample(range(n + 1), min(n + 1, 12)):
                try:
                    if can_join(doc, p):
                        cands.append(p)
                except Exception:  # noqa: BLE001
                    pass
            if not cands:
                return self.pick(tr, REPLACE_FAMILY)
            p = r.choice(cands)
            return name, {"pos": p}, lambda: tr.join(p)
        if name in ("lift", "wrap"):
            for _ in range(12):
                a = r.randint(0, n)
                b2 = min(n, a + r.randint(0, 6))
                try:
                    rng_ = doc.resolve(a).block_range(doc.resolve(b2))
                except Exception:  # noqa: BLE001
                    rng_ = None
                if rng_ is None:
                    continue
                if name == "lift":
                    try:
                        target = lift_target(rng_)
                    except Exception:  # noqa: BLE001
                        target = None
                    if target is not None:
                        return name, {"from": a, "to": b2, "target": target}, (lambda rg=rng_, tg=target: tr.lift(rg, tg))
                else:
                    wt = r.choice([nt for nt in self.schema.nodes.values() if not nt.is_leaf and not nt.is_text])
                    try:
                        w = find_wrapping(rng_, wt)
                    except Exception:  # noqa: BLE001
                        w = None
                    if w is not None:
                        return name, {"from": a, "to": b2, "type": wt.name}, (lambda rg=rng_, ww=w: tr.wrap(rg, ww))
            return self.pick(tr, REPLACE_FAMILY)
        if name == "set_block_type":
            tbs = [nt for nt in self.schema.nodes.values() if nt.is_textblock]
            if not tbs:
                return self.pick(tr, REPLACE_FAMILY)
            nt = r.choice(tbs)
            attrs = {a: json.loads(v) for a, v in self.sg.dg.attrs(nt.name).items()} or None
            return name, {"from": f, "to": t, "type": nt.name, "attrs": proj.pattrs(attrs)}, lambda: tr.set_block_type(f, t, nt, attrs)
        if name in ("set_node_markup", "set_node_attribute", "add_node_mark", "remove_node_mark"):
            poss = []

            def visit(node, pos, parent, index):
                if not node.is_text:
                    poss.append((pos, node))
            doc.descendants(visit)
            if not poss:
                return self.pick(tr, REPLACE_FAMILY)
            p, node = r.choice(poss)
            if name == "set_node_markup":
                same_kind = [nt for nt in self.schema.nodes.values() if not nt.is_text and nt.is_leaf == node.is_leaf
                             and nt.is_inline == node.is_inline]
                nt = r.choice(same_kind) if r.random() < 0.7 else None
                tn = nt.name if nt else node.type.name
                attrs = {a: json.loads(v) for a, v in self.sg.dg.attrs(tn).items()} or None
                return name, {"pos": p, "type": tn, "attrs": proj.pattrs(attrs)}, lambda: tr.set_node_markup(p, nt, attrs)
            if name == "set_node_attribute":
                if not node.attrs:
                    return self.pick(tr, ["set_node_markup"])
                a = r.choice(list(node.attrs))
                v = __import__("copy").deepcopy(r.choice(ATTR_POOL.get(a, GENERIC_VALUES)))
                return name, {"pos": p, "attr": a, "value": json.dumps(v)}, lambda: tr.set_node_attribute(p, a, v)
            m = self.sg.mark()
            if m is None:
                return self.pick(tr, REPLACE_FAMILY)
            if name == "add_node_mark":
                return name, {"pos": p, "mark": proj.pmark(m)}, lambda: tr.add_node_mark(p, m)
            if node.marks and r.random() < 0.7:
                m = r.choice(node.marks)
            return name, {"pos": p, "mark": proj.pmark(m)}, lambda: tr.remove_node_mark(p, m)
        if name == "set_doc_attribute":
            if not doc.attrs:
                return self.pick(tr, REPLACE_FAMILY)
            a = r.choice(list(doc.attrs))
            v = __import__("copy").deepcopy(r.choice(ATTR_POOL.get(a, GENERIC_VALUES)))
            return name, {"attr": a, "value": json.dumps(v)}, lambda: tr.set_doc_attribute(a, v)
        raise ValueError(name)


def run_op(thunk):
    """Execute a Transform operation; classify the outcome."""
    try:
        thunk()
        return {"kind": "ok"}
    except Exception as ex:  # noqa: BLE001
        return {"kind": "raise", "cls": type(ex).__name__, "valueerror": isinstance(ex, ValueError),
                "msg": str(ex)[:100]}
